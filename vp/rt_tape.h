/* concrete runtime shared by the native replay build (C++) and the gcc build of generated C:
 * serves vp_nondet_* from a tape file (env VP_TAPE: whitespace/comma separated unsigned integers,
 * '[' ']' ignored) and prints every outcome as one line. */
#include <stdio.h>
#include <stdlib.h>
#include <string.h>
static unsigned long long vp_tape_vals[65536];
static int vp_tape_n = -1, vp_tape_pos = 0, vp_fail_count = 0;
static void vp_tape_load(void) {
  vp_tape_n = 0;
  const char* fn = getenv("VP_TAPE");
  if (!fn) return;
  FILE* f = fopen(fn, "r");
  if (!f) { fprintf(stderr, "cannot open tape %s\n", fn); exit(3); }
  int c; unsigned long long v = 0; int in = 0;
  while ((c = fgetc(f)) != EOF) {
    if (c >= '0' && c <= '9') { v = v * 10 + (unsigned)(c - '0'); in = 1; }
    else { if (in && vp_tape_n < 65536) vp_tape_vals[vp_tape_n++] = v; v = 0; in = 0; }
  }
  if (in && vp_tape_n < 65536) vp_tape_vals[vp_tape_n++] = v;
  fclose(f);
}
static unsigned long long vp_tape_next(void) {
  if (vp_tape_n < 0) vp_tape_load();
  if (vp_tape_pos < vp_tape_n) return vp_tape_vals[vp_tape_pos++];
  vp_tape_pos++;
  return 0;
}
static void vp_finish(void) {
  printf("END nondet=%d fails=%d\n", vp_tape_pos, vp_fail_count);
  fflush(stdout);
}
