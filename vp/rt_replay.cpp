// native replay runtime (build 2): the harness and the real ebusd sources compiled by g++ against the real
// libstdc++/glibc; nondet values come from the tape, outcomes are printed in the same format as rt_gcc.c
#include "vp.h"
#include "rt_tape.h"
extern "C" {
uint8_t vp_nondet_u8() { return (uint8_t)vp_tape_next(); }
uint16_t vp_nondet_u16() { return (uint16_t)vp_tape_next(); }
uint32_t vp_nondet_u32() { return (uint32_t)vp_tape_next(); }
uint64_t vp_nondet_u64() { return (uint64_t)vp_tape_next(); }
void vp_assert(const char* id, bool c) { printf("ASSERT %s %d\n", id, c ? 1 : 0); if (!c) vp_fail_count++; }
void vp_assume(bool c) { if (!c) { printf("ASSUME-FALSE\n"); vp_finish(); exit(0); } }
void vp_cover(const char* id) { printf("COVER %s\n", id); }
void vp_known(const char*, bool) {}
void vp_observe(const char* id, uint64_t v) { printf("OBS %s %llu\n", id, (unsigned long long)v); }
}
int main() { vp_main(); vp_finish(); return 0; }
