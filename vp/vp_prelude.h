/* prelude of every ll2c-generated C file; two modes:
 *   __CPROVER__  : symbolic (CBMC)
 *   otherwise    : concrete (gcc) -- translator validation build, prints outcomes
 */
#ifndef VP_PRELUDE_H
#define VP_PRELUDE_H
typedef unsigned char u8;
typedef unsigned short u16;
typedef unsigned int u32;
typedef unsigned long long u64;
typedef signed char i8;
typedef short i16;
typedef int i32;
typedef long long i64;
typedef unsigned __int128 u128;
typedef __int128 i128;

double fmod(double, double); float fmodf(float, float);
double fabs(double); float fabsf(float);
double round(double); float roundf(float);
double floor(double); float floorf(float);
double ceil(double); float ceilf(float);
double trunc(double); float truncf(float);
double rint(double); float rintf(float);
double sqrt(double); float sqrtf(float);
void* memcpy(void*, const void*, unsigned long);
void* memmove(void*, const void*, unsigned long);
void* memset(void*, int, unsigned long);
void* malloc(unsigned long);
void free(void*);

static inline float vp_bits2f(u32 b) { union { u32 i; float f; } u; u.i = b; return u.f; }
static inline double vp_bits2d(u64 b) { union { u64 i; double f; } u; u.i = b; return u.f; }
static inline u32 vp_f2bits(float f) { union { u32 i; float f; } u; u.f = f; return u.i; }
static inline u64 vp_d2bits(double f) { union { u64 i; double f; } u; u.f = f; return u.i; }
static inline u16 vp_bswap16(u16 x) { return (u16)((x >> 8) | (x << 8)); }
static inline u32 vp_bswap32(u32 x) { return (x >> 24) | ((x >> 8) & 0xff00U) | ((x << 8) & 0xff0000U) | (x << 24); }
static inline u64 vp_bswap64(u64 x) { return ((u64)vp_bswap32((u32)x) << 32) | vp_bswap32((u32)(x >> 32)); }
static inline u32 vp_ctpop(u64 x) { u32 n = 0; for (int i = 0; i < 64; i++) n += (x >> i) & 1; return n; }
static inline u32 vp_ctlz(u64 x, u32 w) { u32 n = 0; for (int i = (int)w - 1; i >= 0 && !((x >> i) & 1); i--) n++; return n; }
static inline u32 vp_cttz(u64 x, u32 w) { u32 n = 0; for (u32 i = 0; i < w && !((x >> i) & 1); i++) n++; return n; }

static inline void vp_memcpy(void* d, const void* s, u64 n) { if (n) memcpy(d, s, n); }
static inline void vp_memmove(void* d, const void* s, u64 n) { if (n) memmove(d, s, n); }
static inline void vp_memset(void* d, int c, u64 n) { if (n) memset(d, c, n); }

#ifdef __CPROVER__
#  ifdef VP_WITNESS
#    define VP_ASSERT(id, c) ((void)(c))
#    define VP_CHK(id, c) ((void)0)
#    define VP_CHK_OVF(id, k, a, b) ((void)0)
#    define VP_COVER(id) __CPROVER_assert(0, "vp_cover:" id)
#  else
#    define VP_ASSERT(id, c) __CPROVER_assert((c), "vp_assert:" id)
#    ifdef VP_NO_CHK
#      define VP_CHK(id, c) ((void)0)
#      define VP_CHK_OVF(id, k, a, b) ((void)0)
#    else
#      define VP_CHK(id, c) __CPROVER_assert((c), "vp_chk:" id)
#      define VP_CHK_OVF(id, k, a, b) __CPROVER_assert(!__CPROVER_overflow_##k((a), (b)), "vp_chk:" id)
#    endif
#    define VP_COVER(id) ((void)0)
#  endif
#  define VP_ASSUME(c) __CPROVER_assume(c)
#  define VP_OBSERVE(id, v) ((void)(v))
#else
void vp_rt_assert(const char* id, int c);
void vp_rt_chk(const char* id, int c);
void vp_rt_assume(int c);
void vp_rt_cover(const char* id);
void vp_rt_observe(const char* id, u64 v);
#  define __CPROVER_assume(c) vp_rt_assume(c)
#  define VP_ASSERT(id, c) vp_rt_assert(id, (c))
#  define VP_CHK(id, c) vp_rt_chk(id, (c))
#  define VP_CHK_OVF(id, k, a, b) ((void)0)
#  define VP_COVER(id) vp_rt_cover(id)
#  define VP_ASSUME(c) vp_rt_assume(c)
#  define VP_OBSERVE(id, v) vp_rt_observe(id, v)
#endif

/* known findings: VP_KF_MODE_<id> is defined by the driver (generated vp_kf.h):
 *   0 = not open (fixed / not listed): no region excluded
 *   1 = open, main query: region assumed away
 *   2 = open, region query: only the region */
#include "vp_kf.h"
#ifdef VP_KF_IGNORE
#define VP_KNOWN(sid, id, c) ((void)(c))
#else
#define VP_KNOWN(sid, id, c) do { if (VP_KF_MODE_##sid == 1) VP_ASSUME(!(c)); else if (VP_KF_MODE_##sid == 2) VP_ASSUME(c); } while (0)
#endif

#endif
