// harness API (C++ side). See DESIGN.md 2.1.
#ifndef VP_H
#define VP_H
#include <stdint.h>
extern "C" {
uint8_t vp_nondet_u8();
uint16_t vp_nondet_u16();
uint32_t vp_nondet_u32();
uint64_t vp_nondet_u64();
void vp_assume(bool c);                       // precondition / bound
void vp_assert(const char* id, bool c);       // obligation, id is a stable string literal
void vp_cover(const char* id);                // reachability witness point
void vp_known(const char* finding_id, bool in_region);  // known-finding region predicate
void vp_observe(const char* id, uint64_t v);  // value printed by both concrete builds (translator validation)
void vp_main();
}
static inline bool vp_nondet_bool() { return vp_nondet_u8() & 1; }
static inline int vp_nondet_int() { return static_cast<int>(vp_nondet_u32()); }
static inline float vp_nondet_float() { union { uint32_t i; float f; } u; u.i = vp_nondet_u32(); return u.f; }
static inline double vp_nondet_double() { union { uint64_t i; double f; } u; u.i = vp_nondet_u64(); return u.f; }
#endif
