// Demonstration of KF-C03-ARMED-AFTER-NOSIGNAL against the real code, from the real initial state.
// Exits 1 when the defect is present, 0 when it is not.
//   g++ -std=c++17 -fno-access-control -DHAVE_CONFIG_H -I/verif/cfg -I$REPO/src KF-C03-ARMED-AFTER-NOSIGNAL.demo.cpp \
//       $REPO/src/lib/ebus/{protocol,protocol_direct,device_trans,transport,symbol,result}.cpp $REPO/src/lib/utils/{thread,clock,rotatefile,tcpsocket}.cpp -lpthread -o demo
// History: SYN; a request is queued and the device is armed for arbitration; the bus goes silent for more than a second, the
// handler reports "no signal" and completes the request with ERR_NO_SIGNAL; the signal returns with a SYN.
// Before the fix the device is still armed and writes the arbitration address although no request is pending any more.
#include <cstdio>
#include <unistd.h>
#include <cstdarg>
#include <vector>
#include <deque>
#include "lib/ebus/protocol_direct.h"
#include "lib/ebus/device_trans.h"
#include "lib/utils/log.h"
using namespace ebusd;
namespace ebusd {
bool needsLog(const LogFacility, const LogLevel) { return false; }
void logWrite(const LogFacility, const LogLevel, const char*, ...) {}
void logWrite(const char*, const LogLevel, const char*, ...) {}
}
struct ScriptTransport : Transport {
  ScriptTransport() : Transport("script", 0) {}
  std::deque<std::vector<uint8_t>> chunks; std::vector<uint8_t> buf; std::vector<uint8_t> written;
  string getTransportInfo() const override { return "script"; }
  result_t open() override { return RESULT_OK; }
  void close() override {}
  bool isValid() override { return true; }
  result_t openInternal() override { return RESULT_OK; }
  result_t write(const uint8_t* d, size_t n) override { for (size_t i = 0; i < n; i++) written.push_back(d[i]); return RESULT_OK; }
  result_t read(unsigned int, const uint8_t** d, size_t* n) override {
    if (buf.empty()) { if (chunks.empty()) return RESULT_ERR_TIMEOUT; buf = chunks.front(); chunks.pop_front(); }
    *d = buf.data(); *n = buf.size(); return RESULT_OK;
  }
  void readConsumed(size_t n) override { buf.erase(buf.begin(), buf.begin() + n); }
};
struct Lst : ProtocolListener {
  void notifyProtocolStatus(ProtocolState, result_t) override {}
  void notifyProtocolSeenAddress(symbol_t) override {}
  void notifyProtocolMessage(MessageDirection, const MasterSymbolString&, const SlaveSymbolString&) override {}
};
struct Req : BusRequest {
  MasterSymbolString m; int n = 0; result_t res = RESULT_OK;
  Req() : BusRequest(m, false) {}
  bool notify(result_t r, const SlaveSymbolString&) override { n++; res = r; printf("request notified: %s\n", getResultCode(r)); return false; }
};
static void step(DirectProtocolHandler& h) {   // DirectProtocolHandler::run() loop body
  unsigned int to = 0; symbol_t sent = ESC; struct timespec st;
  result_t r = h.handleSend(&to, &sent, &st); bool s = r == RESULT_CONTINUE;
  do { if (r >= RESULT_OK) r = h.handleReceive(to, s, sent, &st); to = 0; s = false; } while (r == RESULT_CONTINUE);
}
int main() {
  ebus_protocol_config_t c{}; c.device = "script"; c.noDeviceCheck = true; c.ownAddress = 0x31; c.lockCount = 3; c.slaveRecvTimeout = 15; c.busAcquireTimeout = 10;
  ScriptTransport* t = new ScriptTransport(); Lst l;
  DirectProtocolHandler h(c, new PlainDevice(t), &l);
  Req& q = *new Req(); for (uint8_t b : {0x31, 0x08, 0xb5, 0x09, 0x01, 0x0d}) q.m.push_back(b);
  t->chunks = {{0xAA}, {0x10}};   // SYN, then the start of a foreign telegram
  step(h);                        // SYN -> ready
  h.m_nextRequests.push(&q);
  step(h);                        // handleSend arms the device; foreign source address received -> no lone SYN yet
  printf("armed: %d\n", h.m_device->isArbitrating());
  sleep(2);                       // silence for more than a second
  step(h); step(h);               // timeouts -> skip -> no signal: the request is completed with ERR_NO_SIGNAL
  printf("state=%d request notified %d time(s), queue empty=%d, still armed=%d\n", h.m_state, q.n, h.m_nextRequests.peek() == nullptr, h.m_device->isArbitrating());
  t->chunks = {{0xAA}};           // the signal returns
  step(h);
  printf("written:"); for (uint8_t b : t->written) printf(" %02x", b); printf("\n");
  bool bad = !t->written.empty();
  if (bad) printf("DEFECT: arbitration address written although no request is pending\n"); else printf("OK: nothing written\n");
  fflush(stdout);
  _exit(bad ? 1 : 0);
}
