// Demonstration of KF-C02-SYN-KEEPS-REQUEST against the real code, from the real initial state (multi-step history behind the
// one-step counterexample of harness/C02_step.cpp). Exits 1 when the defect is present, 0 when it is not.
//   g++ -std=c++17 -fno-access-control -DHAVE_CONFIG_H -I/verif/cfg -I$REPO/src KF-C02-SYN-KEEPS-REQUEST.demo.cpp \
//       $REPO/src/lib/ebus/{protocol,protocol_direct,device_trans,transport,symbol,result}.cpp $REPO/src/lib/utils/{thread,clock,rotatefile,tcpsocket}.cpp -lpthread -o demo
// History: own request 31 08 b5 09 01 0d queued; SYN; arbitration won; while the second byte is being sent, the transport
// delivers in ONE read: SYN (instead of the echo) followed by a complete foreign telegram 10 08 b5 10 00 <crc> ACK 01 55 <crc>.
// Before fix aa7c2ad the request stays attached through the SYN, ebusd acknowledges the foreign response on the bus, completes
// its own request as successful with the foreign data and reports a message it never sent.
#include <cstdio>
#include <unistd.h>
#include <cstdarg>
#include <vector>
#include <deque>
#include "lib/ebus/protocol_direct.h"
#include "lib/ebus/device_trans.h"
#include "lib/utils/log.h"
using namespace ebusd;
namespace ebusd {
bool needsLog(const LogFacility, const LogLevel) { return false; }
void logWrite(const LogFacility, const LogLevel, const char*, ...) {}
void logWrite(const char*, const LogLevel, const char*, ...) {}
}
struct ScriptTransport : Transport {
  ScriptTransport() : Transport("script", 0) {}
  std::deque<std::vector<uint8_t>> chunks; std::vector<uint8_t> buf; std::vector<uint8_t> written;
  string getTransportInfo() const override { return "script"; }
  result_t open() override { return RESULT_OK; }
  void close() override {}
  bool isValid() override { return true; }
  result_t openInternal() override { return RESULT_OK; }
  result_t write(const uint8_t* d, size_t n) override { for (size_t i = 0; i < n; i++) written.push_back(d[i]); return RESULT_OK; }
  result_t read(unsigned int, const uint8_t** d, size_t* n) override {
    if (buf.empty()) { if (chunks.empty()) return RESULT_ERR_TIMEOUT; buf = chunks.front(); chunks.pop_front(); }
    *d = buf.data(); *n = buf.size(); return RESULT_OK;
  }
  void readConsumed(size_t n) override { buf.erase(buf.begin(), buf.begin() + n); }
};
struct Lst : ProtocolListener {
  int sent = 0;
  void notifyProtocolStatus(ProtocolState, result_t) override {}
  void notifyProtocolSeenAddress(symbol_t) override {}
  void notifyProtocolMessage(MessageDirection d, const MasterSymbolString& m, const SlaveSymbolString& s) override {
    printf("reported dir=%d master=%s slave=%s\n", d, m.getStr().c_str(), s.getStr().c_str()); if (d == md_send) sent++;
  }
};
struct Req : BusRequest {
  MasterSymbolString m; int n = 0; result_t res = RESULT_ERR_NO_SIGNAL;
  Req() : BusRequest(m, false) {}
  bool notify(result_t r, const SlaveSymbolString& s) override { n++; res = r; printf("request notified: %s slave=%s\n", getResultCode(r), s.getStr().c_str()); return false; }
};
static uint8_t crcOf(std::vector<uint8_t> v) { uint8_t c = 0; for (uint8_t b : v) SymbolString::updateCrc(b, &c); return c; }
int main() {
  ebus_protocol_config_t c{}; c.device = "script"; c.noDeviceCheck = true; c.ownAddress = 0x31; c.lockCount = 3; c.slaveRecvTimeout = 15; c.busAcquireTimeout = 10;
  ScriptTransport* t = new ScriptTransport(); Lst l;
  DirectProtocolHandler h(c, new PlainDevice(t), &l);
  Req& q = *new Req(); for (uint8_t b : {0x31, 0x08, 0xb5, 0x09, 0x01, 0x0d}) q.m.push_back(b);
  h.m_nextRequests.push(&q);
  std::vector<uint8_t> burst = {0xAA, 0x10, 0x08, 0xb5, 0x10, 0x00};
  burst.push_back(crcOf({0x10, 0x08, 0xb5, 0x10, 0x00})); burst.push_back(0x00);
  burst.push_back(0x01); burst.push_back(0x55); burst.push_back(crcOf({0x01, 0x55}));
  t->chunks = {{0xAA}, {0xAA}, {0x31}, burst, {0x00}};  // the last chunk is the echo of an ACK, should ebusd write one
  size_t wroteBeforeBurst = 0;
  for (int step = 0; step < 40; step++) {   // DirectProtocolHandler::run() loop body
    unsigned int to = 0; symbol_t sent = ESC; struct timespec st;
    result_t r = h.handleSend(&to, &sent, &st); bool s = r == RESULT_CONTINUE;
    if (t->chunks.size() == 2 && t->buf.empty()) wroteBeforeBurst = t->written.size();
    do { if (r >= RESULT_OK) r = h.handleReceive(to, s, sent, &st); to = 0; s = false; } while (r == RESULT_CONTINUE);
    if (t->chunks.empty() && t->buf.empty() && step > 8) break;
  }
  printf("written:"); for (uint8_t b : t->written) printf(" %02x", b); printf("\n");
  bool bad = false;
  if (q.n >= 1 && q.res == RESULT_OK) { printf("DEFECT: own request completed as successful although its exchange was cut by a SYN\n"); bad = true; }
  if (l.sent) { printf("DEFECT: a message that was never completely sent is reported as sent\n"); bad = true; }
  if (t->written.size() > wroteBeforeBurst) { printf("DEFECT: %zu symbol(s) written after the SYN that ended the own exchange\n", t->written.size() - wroteBeforeBurst); bad = true; }
  if (!bad) printf("OK: request ended with %s, nothing reported as sent, nothing written after the SYN\n", getResultCode(q.res));
  fflush(stdout);
  _exit(bad ? 1 : 0);   // skip the destructors (the request may sit in the finished queue)
}
