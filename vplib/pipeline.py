# Pipeline: harness.cpp + real ebusd sources -> clang IR -> ll2c -> C -> CBMC ; native replay ; translator validation.
# See DESIGN.md section 2. stdlib only.
import hashlib, json, os, re, shutil, subprocess, sys, time, random, threading

_native_lock = threading.Lock()
_native_locks = {}

VERIF = os.path.dirname(os.path.dirname(os.path.abspath(__file__)))
REPO = os.environ.get('VP_REPO', '/repo')
BUILD = os.path.join(VERIF, 'build')
CLANG_FLAGS = ['-std=c++17', '-O1', '-g', '-fno-inline', '-fno-exceptions', '-fno-rtti', '-fno-access-control',
               '-fno-vectorize', '-fno-slp-vectorize', '-fno-unroll-loops', '-ffp-contract=off', '-fno-pic', '-fno-pie',
               '-Wno-everything', '-DHAVE_CONFIG_H', '-DVP_SYMBOLIC',
               '-I' + os.path.join(VERIF, 'cfg'), '-I' + os.path.join(REPO, 'src'), '-I' + os.path.join(VERIF, 'vp'),
               '-I' + os.path.join(VERIF, 'harness')]
NATIVE_FLAGS = ['-std=c++17', '-O0', '-g', '-fno-access-control', '-fsanitize=address,undefined',
                '-fno-sanitize-recover=undefined', '-fno-sanitize=vptr', '-w', '-DHAVE_CONFIG_H', '-DVP_NATIVE',
                '-I' + os.path.join(VERIF, 'cfg'), '-I' + os.path.join(REPO, 'src'), '-I' + os.path.join(VERIF, 'vp'),
                '-I' + os.path.join(VERIF, 'harness')]
CBMC_BASE = ['--function', 'vp_entry', '--unwinding-assertions', '--no-malloc-may-fail', '--drop-unused-functions',
             '--object-bits', '12', '--json-ui', '--verbosity', '8']
SOLVERS = {
    'minisat': [],
    'cadical': ['--sat-solver', 'cadical'],
    'kissat': ['--external-sat-solver', 'kissat'],
    'z3': ['--z3'],
    'cvc5': ['--cvc5'],
}


# functions of header-only libstdc++ code that are replaced by models (DESIGN 2.3 'vecgrow'): growth of a
# vector<unsigned char> allocates a symbolic size and copies a symbolic length -- harnesses reserve capacity up front
# and the model reports reaching the growth path as a bound violation
DEFAULT_STUBS = [
    '_ZNSt6vectorIhSaIhEE17_M_realloc_insertIJRKhEEEvN9__gnu_cxx17__normal_iteratorIPhS1_EEDpOT_',
    '_ZNSt6vectorIhSaIhEE17_M_realloc_insertIJhEEEvN9__gnu_cxx17__normal_iteratorIPhS1_EEDpOT_',
    '_ZNSt6vectorIhSaIhEE14_M_fill_insertEN9__gnu_cxx17__normal_iteratorIPhS1_EEmRKh',
    '_ZNSt6vectorIhSaIhEE17_M_default_appendEm',
]


class PipelineError(Exception):
    pass


class MemBudget:
    """admission control for solver processes: a job declares the memory its CBMC processes need (Job.mem_gb per process);
    run_cbmc waits until that much of the budget is free, so that a tier with many heavy jobs does not run the machine out of
    memory (a killed solver would be reported as BROKEN/INCONCLUSIVE, never as success -- but it would be noise)"""
    def __init__(self, total):
        self.total, self.used, self.cv = total, 0, threading.Condition()

    def acquire(self, n):
        n = min(n, self.total)
        with self.cv:
            while self.used + n > self.total:
                self.cv.wait()
            self.used += n
        return n

    def release(self, n):
        with self.cv:
            self.used -= n
            self.cv.notify_all()


MEM = MemBudget(float(os.environ.get('VP_MEM_GB', '44')))


def run(cmd, cwd=None, timeout=None, env=None, stdin=None):
    t0 = time.time()
    try:
        p = subprocess.run(cmd, cwd=cwd, timeout=timeout, env=env, stdin=stdin,
                           stdout=subprocess.PIPE, stderr=subprocess.PIPE)
        return p.returncode, p.stdout.decode('utf-8', 'replace'), p.stderr.decode('utf-8', 'replace'), time.time() - t0
    except subprocess.TimeoutExpired as e:
        return -999, (e.stdout or b'').decode('utf-8', 'replace'), 'TIMEOUT', time.time() - t0


def sid(s):
    return re.sub(r'[^A-Za-z0-9_]', '_', s)


def load_known():
    p = os.path.join(VERIF, 'known_findings.json')
    if not os.path.exists(p):
        return []
    return json.load(open(p))['findings']


def defs_flags(defs):
    out = []
    for k, v in sorted((defs or {}).items()):
        out.append('-D%s' % k if v is None else '-D%s=%s' % (k, v))
    return out


class Job:
    """one (harness, parameterisation) = one CBMC obligation set"""

    def __init__(self, prop, name, src, defs=None, link=(), models=(), opt='inline', unwind=2, unwindset=None,
                 solver='minisat', timeout=300, shape='K', extra=(), bounds='', nochk=False, objbits=None,
                 depth=None, stubs=None, skip_ctors=(), noop_stubs=(), rtti=False, noop_containing=(), devirt_exclude=(), mem_gb=1.5):
        self.prop, self.name, self.src = prop, name, src
        self.defs = dict(defs or {})
        self.link = list(link)
        self.models = list(models)
        self.opt = opt
        self.unwind, self.unwindset = unwind, dict(unwindset or {})
        self.solver, self.timeout, self.shape = solver, timeout, shape
        self.extra = list(extra)
        self.bounds = bounds
        self.nochk = nochk
        self.objbits = objbits
        self.stubs = list(DEFAULT_STUBS if stubs is None else stubs)
        self.stubbed = []
        self.skip_ctors = list(skip_ctors)
        # virtual-call candidates dropped by name; checked, not assumed (an excluded real target fails the slot check)
        self.devirt_exclude = list(devirt_exclude)
        self.mem_gb = mem_gb   # expected peak memory of ONE cbmc process of this job (admission control, MemBudget)
        # functions of the code under test replaced by an empty body in the SYMBOLIC build only (stated per harness as outside
        # the claim; the harness must make their native effects unobservable)
        self.noop_stubs = list(noop_stubs)
        self.rtti = rtti
        self.noop_containing = list(noop_containing)
        self.stubs += self.noop_stubs
        self.dir = os.path.join(BUILD, prop, name)
        self.log = []

    # ---------------------------------------------------------------- build symbolic
    def harness_path(self):
        return os.path.join(VERIF, 'harness', self.src)

    def known_ids(self):
        txt = open(self.harness_path()).read()
        ids = set(re.findall(r'vp_known\(\s*"([^"]+)"', txt))
        # also in included harness headers
        for inc in re.findall(r'#include\s+"((?:env|ref|rel)_[^"]+)"', txt):
            p = os.path.join(VERIF, 'harness', inc)
            if os.path.exists(p):
                ids |= set(re.findall(r'vp_known\(\s*"([^"]+)"', open(p).read()))
        return sorted(ids)

    def write_kf(self, mode_for):
        with open(os.path.join(self.dir, 'vp_kf.h'), 'w') as f:
            for k in self.known_ids():
                f.write('#define VP_KF_MODE_%s %d\n' % (sid(k), mode_for.get(k, 0)))

    def build_c(self):
        os.makedirs(self.dir, exist_ok=True)
        t0 = time.time()
        bcs = []
        hb = os.path.join(self.dir, 'h.bc')
        cf = [f for f in CLANG_FLAGS if not (self.rtti and f == '-fno-rtti')]
        rc, out, err, _ = run(['clang++-14'] + cf + defs_flags(self.defs) +
                              ['-c', '-emit-llvm', self.harness_path(), '-o', hb])
        if rc != 0:
            raise PipelineError('clang failed on harness %s:\n%s' % (self.src, err[-3000:]))
        bcs.append(hb)
        for i, l in enumerate(self.link):
            lb = os.path.join(self.dir, 'l%d.bc' % i)
            rc, out, err, _ = run(['clang++-14'] + cf + defs_flags(self.defs) +
                                  ['-c', '-emit-llvm', os.path.join(REPO, 'src', l), '-o', lb])
            if rc != 0:
                raise PipelineError('clang failed on %s:\n%s' % (l, err[-3000:]))
            bcs.append(lb)
        allbc = os.path.join(self.dir, 'all.bc')
        if len(bcs) > 1:
            rc, out, err, _ = run(['llvm-link-14'] + bcs + ['-o', allbc])
            if rc != 0:
                raise PipelineError('llvm-link failed:\n' + err[-3000:])
        else:
            shutil.copy(hb, allbc)
        final = allbc
        if self.opt == 'inline':
            prep = os.path.join(self.dir, 'prep.bc')
            cmd = [os.path.join(VERIF, 'tool', 'll2c'), '--prep', allbc, '-o', prep]
            for st in self.stubs:
                cmd += ['--stub', st]
            for st in self.noop_containing:
                cmd += ['--stub-containing', st]
            rc, out, err, _ = run(cmd)
            if rc != 0:
                raise PipelineError('ll2c --prep failed: ' + err[-2000:])
            self.stubbed = [l.split(' ', 1)[1] for l in out.splitlines() if l.startswith('STUBBED ')]
            final = os.path.join(self.dir, 'opt.bc')
            rc, out, err, _ = run(['opt-14', '-O1', '-vectorize-loops=false', '-vectorize-slp=false',
                                   '-unroll-threshold=0', prep, '-o', final])
            if rc != 0:
                raise PipelineError('opt failed:\n' + err[-3000:])
        hc = os.path.join(self.dir, 'h.c')
        sk = []
        for c in self.skip_ctors:
            sk += ['--skip-ctor', c]
        for c in self.devirt_exclude:
            sk += ['--devirt-exclude', c]
        rc, out, err, _ = run([os.path.join(VERIF, 'tool', 'll2c'), final, '-o', hc] + sk)
        if rc != 0:
            raise PipelineError('ll2c failed on %s: %s' % (self.name, err[-3000:]))
        self.defined = [l[2:] for l in out.splitlines() if l.startswith('D ')]
        self.externals = [l[2:] for l in out.splitlines() if l.startswith('X ')]
        ctext = open(hc).read()
        self.assert_ids = sorted(set(re.findall(r'VP_ASSERT\("([^"]+)"', ctext)))
        self.cover_ids = sorted(set(re.findall(r'VP_COVER\("([^"]+)"', ctext)))
        self.resolve_loops()
        self.t_build = time.time() - t0
        return hc

    def model_files(self):
        base = ['rt_cbmc', 'cxxabi', 'vecgrow'] + self.models
        files = [os.path.join(VERIF, 'models', m + '.c') for m in dict.fromkeys(base)]
        noops = list(self.noop_stubs) + [n for n in self.stubbed if n not in self.stubs]
        if noops:
            p = os.path.join(self.dir, 'noop_stubs.c')
            with open(p, 'w') as f:
                for n in dict.fromkeys(noops):
                    f.write('void vpx_%s(void* a) { (void)a; }\n' % n)
            files.append(p)
        return files

    def resolve_loops(self):
        """unwindset keys may be CBMC loop ids (f.0) or patterns 'substring' / 'substring@line' matched against the
        function name (and source line) of every loop reported by cbmc --show-loops"""
        pats = {k: v for k, v in self.unwindset.items() if not re.search(r'\.\d+$', k)}
        self.loops_resolved = {k: v for k, v in self.unwindset.items() if k not in pats}
        if not pats:
            return
        cmd = ['cbmc', '-I', os.path.join(VERIF, 'vp'), '-I', self.dir, '-I', os.path.join(VERIF, 'models'),
               os.path.join(self.dir, 'h.c')] + self.model_files() + ['--function', 'vp_entry', '--drop-unused-functions', '--show-loops']
        self.write_kf({})   # the driver rewrites it with the modes of each query
        loops = []
        for attempt in range(3):
            rc, out, err, _ = run(cmd, cwd=self.dir, timeout=300)
            loops = re.findall(r'Loop (\S+):\n\s+file (\S+) line (\d+) function (\S+)', out)
            if rc == 0:
                break
        else:
            raise PipelineError('cbmc --show-loops failed for %s (rc=%s): %s' % (self.name, rc, (err or out)[-800:]))
        for pat, n in pats.items():
            sub, _, line = pat.partition('@')
            hit = False
            for lid, f, ln, fn in loops:
                if sub in fn and (not line or line == ln):
                    self.loops_resolved[lid] = max(n, self.loops_resolved.get(lid, 0))
                    hit = True
            if not hit:
                self.log.append('unwindset pattern %s matched no loop' % pat)

    def cbmc_cmd(self, witness=False, trace=True, solver=None):
        cmd = ['cbmc', '-I', os.path.join(VERIF, 'vp'), '-I', self.dir, '-I', os.path.join(VERIF, 'models'),
               os.path.join(self.dir, 'h.c')] + self.model_files()
        cmd += [c if c != '12' or not self.objbits else str(self.objbits) for c in CBMC_BASE]
        cmd += ['--unwind', str(self.unwind)]
        if getattr(self, 'loops_resolved', None):
            cmd += ['--unwindset', ','.join('%s:%d' % kv for kv in sorted(self.loops_resolved.items()))]
        cmd += SOLVERS[solver or (self.solver if isinstance(self.solver, str) else self.solver[0])]
        cmd += self.extra
        if witness:
            cmd += ['-DVP_WITNESS', '--no-standard-checks']
        elif self.nochk:
            cmd += ['-DVP_NO_CHK', '--no-standard-checks']
        if trace:
            cmd += ['--trace']
        return cmd

    # ---------------------------------------------------------------- run cbmc and parse
    def run_cbmc(self, witness=False, timeout=None):
        """solver may be a name or a tuple of names (portfolio: all started in parallel, the first verdict wins)"""
        solvers = self.solver if isinstance(self.solver, (list, tuple)) else [self.solver]
        timeout = timeout or self.timeout
        procs = []
        held = MEM.acquire(self.mem_gb * len(solvers))
        try:
            return self._run_cbmc_admitted(witness, timeout, solvers, procs)
        finally:
            MEM.release(held)

    def _run_cbmc_admitted(self, witness, timeout, solvers, procs):
        t0 = time.time()
        for sv in solvers:
            cmd = self.cbmc_cmd(witness=witness, solver=sv)
            wrapped = ['/usr/bin/time', '-f', 'VP_RSS_KB=%M', 'bash', '-c',
                       'ulimit -v %d; exec "$@"' % (40 * 1024 * 1024), 'x'] + cmd
            tag = '%s_%s' % ('w' if witness else 'm', sv)
            fo = open(os.path.join(self.dir, 'cbmc_%s.out' % tag), 'wb')
            fe = open(os.path.join(self.dir, 'cbmc_%s.err' % tag), 'wb')
            # own temp directory per solver process: CBMC writes the CNF for an external SAT solver (1-3 GB for the bus jobs)
            # to $TMPDIR and leaves it behind when the process is killed as the loser of the portfolio or at the time limit
            tmpd = os.path.join(self.dir, 'tmp_' + tag)
            shutil.rmtree(tmpd, ignore_errors=True)
            os.makedirs(tmpd, exist_ok=True)
            p = subprocess.Popen(wrapped, cwd=self.dir, stdout=fo, stderr=fe, start_new_session=True, env=dict(os.environ, TMPDIR=tmpd))
            procs.append((sv, cmd, p, fo, fe, tag))
        winner = None
        results = {}
        while time.time() - t0 < timeout and winner is None:
            alive = False
            for sv, cmd, p, fo, fe, tag in procs:
                if sv in results:
                    continue
                rc = p.poll()
                if rc is None:
                    alive = True
                    continue
                fo.close(); fe.close()
                out = open(os.path.join(self.dir, 'cbmc_%s.out' % tag), 'rb').read().decode('utf-8', 'replace')
                err = open(os.path.join(self.dir, 'cbmc_%s.err' % tag), 'rb').read().decode('utf-8', 'replace')
                res = self._parse(cmd, rc, out, err, time.time() - t0)
                res['solver'] = sv
                results[sv] = res
                if res['status'] in ('SUCCESS', 'FAILURE'):
                    winner = res
                    break
            if winner is None and not alive:
                break
            if winner is None:
                time.sleep(0.2)
        for sv, cmd, p, fo, fe, tag in procs:
            if p.poll() is None:
                try:
                    os.killpg(p.pid, 9)
                except Exception:
                    pass
                p.wait()
            try:
                fo.close(); fe.close()
            except Exception:
                pass
            shutil.rmtree(os.path.join(self.dir, 'tmp_' + tag), ignore_errors=True)
        if winner is not None:
            return winner
        if results:
            return list(results.values())[0]
        return {'cmd': ' '.join(procs[0][1]), 'wall_s': round(time.time() - t0, 2), 'rc': -999, 'status': 'TIMEOUT', 'props': [],
                'steps': 0, 'vccs': 0, 'vccs_remaining': 0, 'rss_kb': 0, 'messages': [], 'solver': ','.join(solvers)}

    def _parse(self, cmd, rc, out, err, dt):
        res = {'cmd': ' '.join(cmd), 'wall_s': round(dt, 2), 'rc': rc, 'status': None, 'props': [], 'steps': 0,
               'vccs': 0, 'vccs_remaining': 0, 'rss_kb': 0, 'messages': []}
        m = re.search(r'VP_RSS_KB=(\d+)', err)
        if m:
            res['rss_kb'] = int(m.group(1))
        try:
            js = json.loads(out)
        except Exception:
            res['status'] = 'ERROR'
            res['messages'] = [out[-2000:], err[-2000:]]
            return res
        solver_s = 0.0
        for item in js:
            if 'messageText' in item:
                mt = item['messageText']
                mm = re.search(r'size of program expression: (\d+) steps', mt)
                if mm:
                    res['steps'] = int(mm.group(1))
                mm = re.search(r'Generated (\d+) VCC\(s\), (\d+) remaining', mt)
                if mm:
                    res['vccs'], res['vccs_remaining'] = int(mm.group(1)), int(mm.group(2))
                mm = re.search(r'Runtime decision procedure: ([0-9.e+-]+)s', mt)
                if mm:
                    solver_s += float(mm.group(1))
                mm = re.search(r'Runtime Symex: ([0-9.e+-]+)s', mt)
                if mm:
                    res['symex_s'] = round(float(mm.group(1)), 2)
                mm = re.search(r'(\d+) variables, (\d+) clauses', mt)
                if mm:
                    res['sat_vars'], res['sat_clauses'] = int(mm.group(1)), int(mm.group(2))
                if item.get('messageType') in ('ERROR', 'WARNING'):
                    res['messages'].append(mt)
                if 'no body for' in mt or 'no body for function' in mt:
                    res['status'] = 'ERROR'
                    res['messages'].append('MISSING MODEL: ' + mt)
                if '(error' in mt:
                    res['status'] = 'ERROR'
            if 'result' in item:
                for p in item['result']:
                    pr = {'property': p.get('property'), 'description': p.get('description'), 'status': p.get('status'),
                          'loc': p.get('sourceLocation', {})}
                    if 'trace' in p:
                        pr['tape'] = [int(s['value']['binary'], 2) if s['value'].get('binary') else int(s['value'].get('data', '0'))
                                      for s in p['trace']
                                      if s.get('stepType') == 'assignment' and s.get('lhs') == 'vp_nd_val'
                                      and not s.get('hidden') and 'value' in s]
                    res['props'].append(pr)
            if 'cProverStatus' in item and res['status'] is None:
                res['status'] = item['cProverStatus'].upper()
        res['solver_s'] = round(solver_s, 2)
        if res['status'] is None:
            res['status'] = 'ERROR'
            res['messages'].append(err[-1500:])
        return res

    # ---------------------------------------------------------------- concrete builds
    def native_bin(self):
        key = hashlib.sha1((self.src + json.dumps(self.defs, sort_keys=True) + ','.join(self.link)).encode()).hexdigest()[:10]
        with _native_lock:
            lk = _native_locks.setdefault((self.prop, key), threading.Lock())
        with lk:
            return self._native_bin(key)

    def _native_bin(self, key):
        d = os.path.join(BUILD, self.prop, 'native', key)
        exe = os.path.join(d, 'replay')
        lock = exe + '.done'
        if os.path.exists(lock):
            return exe
        os.makedirs(d, exist_ok=True)
        srcs = [self.harness_path(), os.path.join(VERIF, 'vp', 'rt_replay.cpp')] + \
               [os.path.join(REPO, 'src', l) for l in self.link]
        base = ['g++'] + NATIVE_FLAGS + defs_flags(self.defs) + srcs + ['-o', exe, '-lpthread', '-Wl,--no-demangle']
        rc, out, err, dt = run(base)
        syms = set()
        rounds = 0
        while rc != 0 and 'undefined reference' in err and rounds < 6:
            # references from code that no harness path reaches (e.g. ProtocolHandler::create -> NetworkTransport):
            # satisfied by trapping stubs, so that reaching one natively is loud
            rounds += 1
            syms |= set(re.findall(r"undefined reference to `([A-Za-z0-9_$.]+)'", err))
            stub = os.path.join(d, 'unresolved_stubs.c')
            with open(stub, 'w') as f:
                for sy in sorted(syms):
                    f.write('void %s(void) { __builtin_trap(); }\n' % sy)
            run(['gcc', '-c', '-fsanitize=address', stub, '-o', stub + '.o'])
            rc, out, err, dt = run(base + [stub + '.o', '-no-pie'])
        if rc != 0:
            raise PipelineError('native build failed for %s:\n%s' % (self.name, err[-3000:]))
        open(lock, 'w').write('ok')
        return exe

    def gcc_bin(self):
        exe = os.path.join(self.dir, 'h_gcc')
        srcs = [os.path.join(self.dir, 'h.c'), os.path.join(VERIF, 'models', 'rt_gcc.c')] + \
               [m for m in self.model_files() if not m.endswith('rt_cbmc.c')]
        rc, out, err, dt = run(['gcc', '-O0', '-g', '-w', '-fno-strict-aliasing', '-fwrapv', '-DVP_KF_IGNORE', '-I', os.path.join(VERIF, 'vp'),
                                '-I', self.dir, '-I', os.path.join(VERIF, 'models')] + srcs + ['-o', exe, '-lm'])
        if rc != 0:
            raise PipelineError('gcc build of generated C failed for %s:\n%s' % (self.name, err[-3000:]))
        return exe

    def run_concrete(self, exe, tape, timeout=60):
        tp = os.path.join(self.dir, 'tape_%s.txt' % hashlib.sha1(json.dumps(tape).encode()).hexdigest()[:10])
        open(tp, 'w').write(' '.join(str(v) for v in tape) + '\n')
        env = dict(os.environ, VP_TAPE=tp, ASAN_OPTIONS='detect_leaks=0:abort_on_error=0',
                   UBSAN_OPTIONS='print_stacktrace=0:halt_on_error=1')
        rc, out, err, dt = run([exe], env=env, timeout=timeout)
        return rc, out, err
