# check driver: runs all jobs of a property, decides verdict, writes evidence. DESIGN.md 2.6-2.10
import json, os, random, re, sys, time, threading, hashlib, traceback, shutil
from concurrent.futures import ThreadPoolExecutor
from . import pipeline as P

POOL = ThreadPoolExecutor(max_workers=int(os.environ.get('VP_JOBS', '16')))
print_lock = threading.Lock()


def say(*a):
    with print_lock:
        print(*a, flush=True)


def norm_lines(out):
    # lines compared between the native build and the gcc build of the generated C
    res = []
    for l in out.splitlines():
        w = l.split(' ')
        if w[0] in ('ASSERT', 'COVER', 'OBS', 'ASSUME-FALSE'):
            res.append(l)
        elif w[0] == 'END':
            res.append(' '.join(w[:2]))   # nondet count only: advisory CHK-FAIL lines differ between the builds
    return res


def is_unwind(pr):
    return 'unwinding assertion' in (pr.get('description') or '') or '.unwind.' in (pr.get('property') or '')


def classify(pr):
    d = pr.get('description') or ''
    if d.startswith('vp_assert:'):
        return 'assert', d[len('vp_assert:'):]
    if d.startswith('vp_chk:'):
        return 'chk', d[len('vp_chk:'):]
    if d.startswith('vp_cover:'):
        return 'cover', d[len('vp_cover:'):]
    if is_unwind(pr):
        return 'unwind', d
    return 'builtin', d


ADVISORY = ('shift-count', 'float-to-int-range', 'shift distance too large', 'arithmetic overflow on signed shl',
            'arithmetic overflow on floating-point typecast', 'arithmetic overflow on signed type conversion')


def advisory(pr):
    # poison-producing operations (LLVM: no immediate UB, and the optimizer speculates them): a failed check of this
    # class counts only when the native UBSan replay confirms it (DESIGN 2.4/2.7)
    d = pr.get('description') or ''
    return any(a in d for a in ADVISORY)


def ignorable(pr):
    # the one deliberate filter of DESIGN 2.4: "arithmetic overflow on signed shl" of 1<<31 is defined since C++14
    d = pr.get('description') or ''
    return 'arithmetic overflow on signed shl' in d


class JobResult:
    def __init__(self, job):
        self.job = job
        self.status = 'OK'       # OK | VIOLATION | BROKEN | INCONCLUSIVE
        self.notes = []
        self.violations = []     # (assert id, replay path)
        self.known = []          # (kf id, text)
        self.ev = {}
        self.samples = []
        self.traces_validated = 0
        self.queries = 0
        self.nontrivial = 0


def worse(a, b):
    order = ['OK', 'INCONCLUSIVE', 'BROKEN', 'VIOLATION']
    return a if order.index(a) >= order.index(b) else b


def reproduces(kind, ident, rc, out, err):
    if kind == 'assert':
        return ('ASSERT %s 0' % ident) in out.splitlines()
    # check classes: sanitizer report or crash
    if 'runtime error' in err or 'AddressSanitizer' in err or rc < 0 or 'terminate called' in err or rc == 134:
        return True
    return False


def save_replay(job, kind, ident, tape):
    d = os.path.join(P.VERIF, 'replays', job.prop)
    os.makedirs(d, exist_ok=True)
    h = hashlib.sha1(json.dumps([job.name, ident, tape]).encode()).hexdigest()[:10]
    p = os.path.join(d, '%s-%s.json' % (job.name, h))
    json.dump({'property': job.prop, 'job': job.name, 'harness': job.src, 'defs': job.defs, 'link': job.link,
               'kind': kind, 'assertion': ident, 'tape': tape}, open(p, 'w'), indent=1)
    return p


def run_job(job, tier, seed, known):
    R = JobResult(job)
    t0 = time.time()
    try:
        job.build_c()
    except P.PipelineError as e:
        R.status = 'BROKEN'
        R.notes.append(str(e))
        return R
    my_open = [k for k in known if k['status'] == 'open' and k['property'] == job.prop and k['id'] in job.known_ids()]
    main_modes = {k['id']: 1 for k in my_open}
    job.write_kf(main_modes)

    fut_native = POOL.submit(job.native_bin)
    fut_gcc = POOL.submit(job.gcc_bin)
    fut_wit = POOL.submit(job.run_cbmc, True) if job.cover_ids else None
    fut_main = POOL.submit(job.run_cbmc, False)

    tapes = []   # (label, tape, expect) for translator validation
    try:
        native = fut_native.result()
        gccb = fut_gcc.result()
    except P.PipelineError as e:
        R.status = 'BROKEN'
        R.notes.append(str(e))
        return R
    # ---- witness
    wit = None
    if fut_wit:
        wit = fut_wit.result()
        R.queries += len(wit['props'])
        if wit['status'] in ('TIMEOUT', 'ERROR'):
            R.status = worse(R.status, 'INCONCLUSIVE' if wit['status'] == 'TIMEOUT' else 'BROKEN')
            R.notes.append('witness run %s: %s' % (wit['status'], '; '.join(wit['messages'])[:800]))
        else:
            seen = {}
            for pr in wit['props']:
                k, ident = classify(pr)
                if k == 'cover':
                    seen[ident] = pr
            for cid in job.cover_ids:
                pr = seen.get(cid)
                if pr is None or pr['status'] != 'FAILURE':
                    R.status = worse(R.status, 'BROKEN')
                    R.notes.append('VACUOUS: cover point %s not reachable in %s' % (cid, job.name))
                    continue
                tape = pr.get('tape', [])
                rc, out, err = job.run_concrete(native, tape)
                if ('COVER %s' % cid) not in out.splitlines():
                    R.status = worse(R.status, 'BROKEN')
                    R.notes.append('witness for %s does not replay natively (rc=%d) %s' % (cid, rc, err[-300:]))
                else:
                    R.traces_validated += 1
                    R.nontrivial += 1
                    if len(R.samples) < 3:
                        R.samples.append({'job': job.name, 'witness_for': cid, 'nondet_tape': tape[:40],
                                          'native_output': norm_lines(out)[:8]})
                tapes.append(('witness:' + cid, tape))
    # ---- main
    main = fut_main.result()
    R.queries += len(main['props'])
    R.ev = {'job': job.name, 'harness': job.src, 'shape': job.shape, 'defs': job.defs, 'bounds': job.bounds,
            'unwind': job.unwind, 'unwindset': job.unwindset, 'solver': main.get('solver', job.solver), 'solver_portfolio': job.solver, 'opt': job.opt,
            'functions_encoded': len(job.defined), 'functions_encoded_sample': job.defined[:25],
            'external_models': job.externals, 'assert_ids': job.assert_ids, 'cover_ids': job.cover_ids,
            'cbmc_status': main['status'], 'properties_checked': len(main['props']),
            'properties_failed': sum(1 for p in main['props'] if p['status'] == 'FAILURE'),
            'symex_steps': main['steps'], 'vccs': main['vccs'], 'vccs_remaining': main['vccs_remaining'],
            'solver_s': main.get('solver_s'), 'symex_s': main.get('symex_s'), 'sat_vars': main.get('sat_vars'), 'sat_clauses': main.get('sat_clauses'), 'wall_s': main['wall_s'], 'rss_kb': main['rss_kb'],
            'witness_wall_s': wit['wall_s'] if wit else None}
    if main['status'] == 'TIMEOUT':
        R.status = worse(R.status, 'INCONCLUSIVE')
        R.notes.append('main query timed out after %ss' % job.timeout)
    elif main['status'] == 'ERROR':
        R.status = worse(R.status, 'BROKEN')
        R.notes.append('cbmc error: ' + ' | '.join(main['messages'])[:1500])
    else:
        missing = [m for m in main['messages'] if 'no body for' in m]
        if missing:
            R.status = worse(R.status, 'BROKEN')
            R.notes.append('missing models: ' + '; '.join(missing)[:800])
        for pr in main['props']:
            if pr['status'] != 'FAILURE' or ignorable(pr):
                continue
            k, ident = classify(pr)
            if k == 'unwind':
                R.status = worse(R.status, 'INCONCLUSIVE')
                R.notes.append('unwinding bound too small: %s %s' % (pr['property'], pr['loc'].get('line')))
                continue
            tape = pr.get('tape', [])
            rc, out, err = job.run_concrete(native, tape)
            loc = '%s:%s' % (pr['loc'].get('file', '?'), pr['loc'].get('line', '?'))
            if reproduces(k, ident, rc, out, err):
                path = save_replay(job, k, ident, tape)
                R.status = worse(R.status, 'VIOLATION')
                R.violations.append((ident, path, loc))
                R.traces_validated += 1
                tapes.append(('cex:' + ident, tape))
            elif advisory(pr):
                R.advisory = getattr(R, 'advisory', 0) + 1
                R.ev.setdefault('advisory_unconfirmed', []).append('%s at %s' % (ident, loc))
            else:
                R.status = worse(R.status, 'BROKEN')
                R.notes.append('UNCONFIRMED counterexample for %s (%s) at %s: native rc=%d out=%s err=%s' % (
                    ident, k, loc, rc, norm_lines(out)[-4:], err[-300:]))
                save_replay(job, k + '-unconfirmed', ident, tape)
        # non-vacuity accounting: asserted ids present in the formula
        seen_ids = set(classify(p)[1] for p in main['props'] if classify(p)[0] == 'assert')
        for a in job.assert_ids:
            if a not in seen_ids:
                R.status = worse(R.status, 'BROKEN')
                R.notes.append('assertion %s not present in CBMC property list (dropped as unreachable?)' % a)
        R.nontrivial += len(seen_ids)
    # ---- known-finding region queries
    for k in my_open:
        modes = dict(main_modes)
        modes[k['id']] = 2
        # region query needs its own dir copy of vp_kf.h: run sequentially with rewritten header
        job.write_kf(modes)
        reg = job.run_cbmc(False)
        job.write_kf(main_modes)
        R.queries += len(reg['props'])
        hit = None
        for pr in reg['props']:
            if pr['status'] == 'FAILURE':
                kk, ident = classify(pr)
                ka = k.get('assertion')
                if (ka == '*' and kk == 'assert') or ident == ka or (kk != 'assert' and ka != '*' and ka in (pr.get('description') or '')):
                    hit = (pr, kk, ident)
                    break
        if hit:
            pr, kk, ident = hit
            rc, out, err = job.run_concrete(native, pr.get('tape', []))
            if reproduces(kk, ident, rc, out, err):
                R.traces_validated += 1
                R.known.append((k['id'], 'KNOWN-FINDING: property=%s %s [%s, witness tape %s]' % (
                    job.prop, k['what'], k['id'], pr.get('tape', [])[:12])))
            else:
                R.notes.append('known finding %s: the region counterexample of this harness does not reproduce on the native build (not reported here)' % k['id'])
        else:
            R.notes.append('known finding %s no longer reproduces in %s (region query: %s)' % (k['id'], job.name, reg['status']))
    # ---- translator validation on tapes
    rnd = random.Random(seed * 7919 + hash(job.name) % 100000)
    ntape = 12 if tier == 'quick' else 40
    for i in range(ntape):
        L = rnd.choice([4, 8, 16, 32, 64])
        mode = rnd.random()
        if mode < 0.4:
            tape = [rnd.randrange(0, 256) for _ in range(L)]
        elif mode < 0.7:
            tape = [rnd.choice([0, 1, 2, 3, 0xa9, 0xaa, 0xff, 0xfe, 0x10, 0x31, 8, 0x15]) for _ in range(L)]
        else:
            tape = [rnd.getrandbits(rnd.choice([8, 16, 32, 64])) for _ in range(L)]
        tapes.append(('rand%d' % i, tape))
    mism = 0
    for label, tape in tapes:
        rc1, o1, e1 = job.run_concrete(native, tape)
        rc2, o2, e2 = job.run_concrete(gccb, tape)
        if 'runtime error' in e1 or 'AddressSanitizer' in e1:
            continue  # sanitizer-terminated native run: outputs not comparable (UB)
        if norm_lines(o1) != norm_lines(o2):
            mism += 1
            if mism <= 2:
                R.notes.append('TRANSLATOR-MISMATCH on %s tape=%s native=%s gen=%s' % (label, tape[:24], norm_lines(o1)[-5:], norm_lines(o2)[-5:]))
    R.ev['translator_validation_tapes'] = len(tapes)
    R.ev['translator_mismatches'] = mism
    if mism:
        R.status = worse(R.status, 'BROKEN')
    R.ev['job_wall_s'] = round(time.time() - t0, 1)
    R.ev['status'] = R.status
    R.ev['notes'] = R.notes[:10]
    return R


def run_property(prop, tier, jobs, level_note, outside_claim, assumptions, only=None):
    t0 = time.time()
    seed = int(os.environ.get('VERIF_SEED', '1'))
    known = P.load_known()
    for k in known:
        if k['property'] == prop and k['status'] == 'fixed':
            pass
    jobs = [j for j in jobs if (only is None or j.name in only)]
    if only is None:
        shutil.rmtree(os.path.join(P.BUILD, prop), ignore_errors=True)
    else:
        shutil.rmtree(os.path.join(P.BUILD, prop, 'native'), ignore_errors=True)
    threads, results = [], [None] * len(jobs)

    def runner(i, j):
        try:
            results[i] = run_job(j, tier, seed, known)
        except Exception as e:
            r = JobResult(j)
            r.status = 'BROKEN'
            r.notes.append('driver exception: %s\n%s' % (e, traceback.format_exc()[-1500:]))
            results[i] = r
    for i, j in enumerate(jobs):
        th = threading.Thread(target=runner, args=(i, j))
        th.start()
        threads.append(th)
    for th in threads:
        th.join()
    status = 'OK'
    nviol = 0
    for r in results:
        status = worse(status, r.status)
        for n in r.notes:
            say('  [%s] %s' % (r.job.name, n))
        for kid, line in r.known:
            say(line)
        for ident, path, loc in r.violations:
            nviol += 1
            say('VIOLATION property=%s replay=%s   (job %s, assertion %s, at %s)' % (prop, path, r.job.name, ident, loc))
        say('  %-28s %-12s cbmc=%s props=%s failed=%s steps=%s solver=%ss wall=%ss rss=%sMB' % (
            r.job.name, r.status, r.ev.get('cbmc_status'), r.ev.get('properties_checked'), r.ev.get('properties_failed'),
            r.ev.get('symex_steps'), r.ev.get('solver_s'), r.ev.get('job_wall_s'), (r.ev.get('rss_kb') or 0) // 1024))
    # dedupe known lines
    wall = time.time() - t0
    samples = []
    for r in results:
        samples += r.samples
    if not samples:
        samples = [{'job': r.job.name, 'obligations': r.job.__dict__.get('assert_ids', [])} for r in results[:3]]
    ev = {
        'property_id': prop, 'tier': tier, 'seed': seed, 'level': 'model_checking',
        'coverage': {
            'evaluations': sum(r.queries for r in results),
            'distinct_nontrivial': sum(r.nontrivial for r in results),
            'rule': 'evaluations = CBMC properties (assertions, built-in safety checks, unwinding assertions, cover points) '
                    'decided by the solver over all values of the nondet inputs within the bounds; distinct_nontrivial = '
                    'distinct vp_assert obligations present in the formula plus cover points whose witness was reachable '
                    'and replayed on the native build',
            'states': max(1, sum(r.ev.get('symex_steps') or 0 for r in results)),
            'transitions': max(1, sum(r.ev.get('vccs') or 0 for r in results)),
            'states_transitions_meaning': 'states = symbolic-execution steps in the unwound program expressions; '
                                          'transitions = verification conditions generated (before simplification)',
            'traces_validated_against_impl': sum(r.traces_validated for r in results),
            'samples': samples[:8],
            'exhaustive': False,
            'harnesses': [r.ev for r in results],
            'solver_wall_s_total': round(sum((r.ev.get('solver_s') or 0) for r in results), 1),
            'outside_claim': outside_claim,
            'known_findings_reported': [k for r in results for k, _ in r.known],
            'verdict': status,
        },
        'assumptions': assumptions,
        'wall_s': round(wall, 1),
        'violations': nviol,
    }
    os.makedirs(os.path.join(P.VERIF, 'evidence'), exist_ok=True)
    json.dump(ev, open(os.path.join(P.VERIF, 'evidence', prop + '.json'), 'w'), indent=1)
    say('%s %s tier=%s jobs=%d wall=%.0fs' % (prop, status, tier, len(jobs), wall))
    return {'OK': 0, 'VIOLATION': 1, 'BROKEN': 2, 'INCONCLUSIVE': 3}[status]


def replay(path):
    rp = json.load(open(path))
    j = P.Job(rp['property'], rp['job'], rp['harness'], defs=rp.get('defs'), link=rp.get('link', ()))
    os.makedirs(j.dir, exist_ok=True)
    shutil.rmtree(os.path.join(P.BUILD, rp['property'], 'native'), ignore_errors=True)   # always rebuilt from /repo's current tree
    exe = j.native_bin()
    rc, out, err = j.run_concrete(exe, rp['tape'])
    print(out)
    print(err[-3000:])
    ok = reproduces('assert' if rp['kind'].startswith('assert') else 'chk', rp['assertion'], rc, out, err)
    print('REPRODUCED' if ok else 'NOT REPRODUCED')
    return 1 if ok else 0
