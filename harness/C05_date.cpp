// C05 -- date and time types: real DateTimeDataType::readSymbols (through the ostream model, text rendered for real)
// against an independent decode of the bytes. One type per job. DESIGN.md section 4/C05 "K c05_date / c05_time".
// Scenario space: no byte equals the type's replacement value and day/month are non-zero (the partial-null forms
// "-.mm.yyyy" are outside this harness); everything else is arbitrary, incl. invalid BCD digits and out-of-range values.
#include "vp.h"
#include <sstream>
#include "lib/utils/log.h"
namespace ebusd {
bool needsLog(const LogFacility, const LogLevel) { return false; }
void logWrite(const LogFacility, const LogLevel, const char*, ...) {}
void logWrite(const char*, const LogLevel, const char*, ...) {}
}
#include "lib/ebus/datatype.h"
using namespace ebusd;
#ifndef D_BITS
#error "type parameters missing"
#endif
#define LEN ((D_BITS) / 8)
static bool bcdOk(uint8_t b) { return (b & 0xf0) <= 0x90 && (b & 0x0f) <= 0x09; }
static uint8_t bcdVal(uint8_t b) { return static_cast<uint8_t>((b >> 4) * 10 + (b & 0x0f)); }
extern "C" void vp_main() {
  static const DateTimeDataType t("TST", D_BITS, D_FLAGS, D_REPL, D_DATE, D_TIME, 0);
  const bool bcd = ((D_FLAGS) & BCD) != 0, rev = ((D_FLAGS) & REV) != 0;
  uint8_t b[LEN];
  for (int i = 0; i < LEN; i++) { b[i] = vp_nondet_u8(); vp_assume(b[i] != ((D_REPL) & 0xff)); }
  SlaveSymbolString in;
  in.m_data.reserve(LEN + 2);
  in.push_back(LEN);
  for (int i = 0; i < LEN; i++) in.push_back(b[i]);
  // ---- reference ----
  uint8_t v[3]; bool err = false;
  // logical order of the components: date: day, month, year (weekday byte skipped); time: hour, minute[, second]
  int nComp = (D_DATE) ? 3 : LEN;
  for (int k = 0; k < nComp; k++) {
    int idx = (D_DATE) ? (LEN == 4 && k == 2 ? 3 : k) : (rev ? LEN - 1 - k : k);
    uint8_t raw = b[idx];
    if (bcd) { if (!bcdOk(raw) && !err) err = true; v[k] = bcdVal(raw); } else v[k] = raw;
  }
  char exp[11]; int elen;
  if (D_DATE) {
    vp_assume(b[0] != 0 && b[1] != 0);
    // ebusd checks components in order and stops at the first problem: BCD digits of a byte are checked when it is reached
    bool e = false;
    for (int k = 0; k < 3; k++) {
      int idx = (LEN == 4 && k == 2) ? 3 : k;
      if (!e && bcd && !bcdOk(b[idx])) e = true;
      if (!e && k == 0 && (v[0] < 1 || v[0] > 31)) e = true;
      if (!e && k == 1 && (v[1] < 1 || v[1] > 12)) e = true;
    }
    err = e;
    unsigned y = 2000u + v[2];
    exp[0] = '0' + v[0] / 10; exp[1] = '0' + v[0] % 10; exp[2] = '.';
    exp[3] = '0' + v[1] / 10; exp[4] = '0' + v[1] % 10; exp[5] = '.';
    exp[6] = '0' + (y / 1000) % 10; exp[7] = '0' + (y / 100) % 10; exp[8] = '0' + (y / 10) % 10; exp[9] = '0' + y % 10;
    elen = 10;
  } else {
    bool e = err;
    if (!e && v[0] > 24) e = true;
    for (int k = 1; k < LEN; k++) if (!e && (v[k] > 59 || (v[0] == 24 && v[k] > 0))) e = true;
    err = e;
    for (int k = 0; k < LEN; k++) { exp[3 * k] = '0' + (v[k] / 10) % 10; exp[3 * k + 1] = '0' + v[k] % 10; if (k + 1 < LEN) exp[3 * k + 2] = ':'; }
    elen = 3 * LEN - 1;
  }
  std::ostringstream out;
  result_t r = t.readSymbols(0, LEN, in, OF_NONE, &out);
  vp_assert("decode-rejected-iff-digits-or-range-invalid", (r != RESULT_OK) == err);
  if (r != RESULT_OK) { vp_assert("rejected-as-out-of-range", r == RESULT_ERR_OUT_OF_RANGE); vp_cover("invalid-pattern-rejected"); return; }
  std::string s = out.str();
  bool same = s.size() == static_cast<size_t>(elen);
  for (int i = 0; i < 10; i++) if (i < elen && i < static_cast<int>(s.size()) && s[i] != exp[i]) same = false;
  vp_assert("decoded-text-is-the-specified-date-or-time", same);
  vp_cover("valid-pattern-decoded");
  vp_observe("len", s.size());
}
