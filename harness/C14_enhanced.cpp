// C14 -- adapter framing: real EnhancedDevice (device_trans.cpp) on a minimal in-memory transport.
//   H_ENCODE : send / startArbitration / requestEnhancedInfo write exactly the defined two-byte sequence
//   H_FRAME  : one well-formed unit (plain byte, RECEIVED, STARTED, FAILED) decodes to the symbol / result the protocol
//              definition assigns, from any arbitration state; other frames deliver no symbol
//   H_CHUNK  : a stream of L arbitrary bytes decodes to the same sequence of (symbol, arbitration result) and the same
//              diagnostic notifications whether it arrives at once or split at an arbitrary position
// DESIGN.md section 4/C14.
#include "vp.h"
#include <time.h>
#include "lib/utils/log.h"
namespace ebusd {
bool needsLog(const LogFacility, const LogLevel) { return false; }
void logWrite(const LogFacility, const LogLevel, const char*, ...) {}
void logWrite(const char*, const LogLevel, const char*, ...) {}
}
#include "lib/ebus/device_trans.h"
static time_t g_now = 1000;
extern "C" time_t time(time_t* t) __THROW { if (t) *t = g_now; return g_now; }   // one instant per harness execution
namespace ebusd {
uint64_t clockGetMillis() { return static_cast<uint64_t>(g_now) * 1000; }
void clockGettime(struct timespec* t) { t->tv_sec = g_now; t->tv_nsec = 0; }
}
extern "C" int usleep(unsigned) { return 0; }
using namespace ebusd;
#ifndef L
#define L 3
#endif

class MiniTransport : public Transport {
 public:
  MiniTransport() : Transport("mini", 0), m_len(0), m_nw(0), m_closed(0) {}
  string getTransportInfo() const override { return "mini"; }
  result_t open() override { return RESULT_OK; }
  void close() override { m_closed++; }
  bool isValid() override { return true; }
  result_t openInternal() override { return RESULT_OK; }
  result_t write(const uint8_t* data, size_t len) override {
    for (size_t i = 0; i < len; i++) { if (m_nw < 8) m_w[m_nw] = data[i]; m_nw++; }
    return RESULT_OK;
  }
  result_t read(unsigned int, const uint8_t** data, size_t* len) override {
    if (m_len == 0) return RESULT_ERR_TIMEOUT;
    *data = m_buf; *len = m_len;
    return RESULT_OK;
  }
  void readConsumed(size_t n) override {
    if (n > m_len) n = m_len;
    for (size_t i = 0; i < L; i++) if (i + n < L) m_buf[i] = m_buf[i + n];
    m_len -= n;
  }
  void append(uint8_t b) { if (m_len < L) m_buf[m_len++] = b; }
  uint8_t m_buf[L];
  size_t m_len;
  uint8_t m_w[8];
  unsigned m_nw, m_closed;
};
class MiniListener : public DeviceListener {
 public:
  MiniListener() : m_nstatus(0), m_errbits(0), m_ndata(0) {}
  void notifyDeviceData(const symbol_t*, size_t, bool) override { m_ndata++; }
  void notifyDeviceStatus(bool error, const char* message) override {
    // "extra info: ..." texts (EnhancedDevice::notifyInfoRetrieved) are outside the claim: that function has an empty body
    // in the symbolic build, so its notifications are ignored here to keep both builds observably equal
    if (message[0] == 'e' && message[1] == 'x') return;
    if (m_nstatus < 8) { if (error) m_errbits |= 1u << m_nstatus; }
    m_nstatus++;
  }
  unsigned m_nstatus, m_errbits, m_ndata;
};

#if defined(H_ENCODE)
extern "C" void vp_main() {
  MiniTransport* tr = new MiniTransport();
  EnhancedDevice dev(tr);
  MiniListener lst;
  dev.setListener(&lst);
  uint8_t x = vp_nondet_u8();
  uint8_t op = vp_nondet_u8() % 3;
  uint8_t cmd;
  if (op == 0) { cmd = 1; vp_assert("send-ok", dev.send(x) == RESULT_OK); }
  else if (op == 1) { vp_assume(x != 0xAA); cmd = 2; vp_assert("start-ok", dev.startArbitration(x) == RESULT_OK); }
  else { vp_assume(x != 0xff); /* 0xff = documented 'wait for completion' pseudo id */ cmd = 3; dev.m_extraFeatures = 1; vp_assert("info-ok", dev.requestEnhancedInfo(x, false) == RESULT_OK); }
  vp_assert("exactly-one-two-byte-sequence-written", tr->m_nw == 2);
  vp_assert("first-byte-is-11ccccdd", tr->m_w[0] == static_cast<uint8_t>(0xC0 | (cmd << 2) | (x >> 6)));
  vp_assert("second-byte-is-10dddddd", tr->m_w[1] == static_cast<uint8_t>(0x80 | (x & 0x3f)));
  if (op == 1) vp_cover("arbitration-start-encoded");
  dev.m_transport = nullptr;  // the transport is not owned by this stack object's destructor in the harness
}
#elif defined(H_FRAME)
extern "C" void vp_main() {
  MiniTransport* tr = new MiniTransport();
  EnhancedDevice dev(tr);
  MiniListener lst;
  dev.setListener(&lst);
  // arbitrary arbitration state
  uint8_t am = vp_nondet_u8();
  dev.m_arbitrationMaster = am;
  dev.m_arbitrationCheck = am == 0xAA ? 0 : (vp_nondet_u8() % 4);
  uint8_t b0 = vp_nondet_u8(), b1 = vp_nondet_u8();
  bool two = b0 >= 0x80;
  vp_assume(!two || ((b0 & 0xC0) == 0xC0 && (b1 & 0xC0) == 0x80));   // a well-formed unit
  tr->append(b0);
  if (two) tr->append(b1);
  uint8_t cmd = (b0 >> 2) & 0x0f;
  uint8_t d = static_cast<uint8_t>(((b0 & 0x03) << 6) | (b1 & 0x3f));
  symbol_t v = 0x55;
  ArbitrationState as = as_none;
  result_t r = dev.recv(0, &v, &as);
  bool wasArb = am != 0xAA;
  if (!two) {
    vp_assert("plain-byte-delivered-unchanged", r == RESULT_OK && v == b0);
    vp_assert("plain-byte-keeps-arbitration-state", as == (wasArb ? as_running : as_none));
    vp_cover("plain-byte");
  } else if (cmd == 1) {
    vp_assert("received-frame-delivers-its-data-byte", r == RESULT_OK && v == d);
    if (d != 0xAA) vp_assert("received-frame-keeps-arbitration-state", as == (wasArb ? as_running : as_none));
    vp_cover("received-frame");
  } else if (cmd == 2) {
    vp_assert("started-frame-means-arbitration-won", r == RESULT_OK && v == d && as == as_won);
    vp_assert("arbitration-finished", !dev.isArbitrating());
    vp_cover("started-frame");
  } else if (cmd == 0xa) {
    vp_assert("failed-frame-means-arbitration-lost", r == RESULT_OK && v == d && as == as_lost);
    vp_assert("arbitration-finished", !dev.isArbitrating());
    vp_cover("failed-frame");
  } else {
    vp_assert("control-frames-deliver-no-symbol", r == RESULT_ERR_TIMEOUT);
    vp_cover("control-frame");
  }
  // observation OBS-C14-unknown-cmd: for a command code the protocol does not define, ebusd reports "unexpected enhanced
  // command" and leaves the second byte buffered (it is then reported as "unexpected enhanced byte 2"); no symbol is
  // produced either way, so this is not counted against the property
  bool known = !two || cmd <= 3 || (cmd >= 0xa && cmd <= 0xc);
  vp_assert("unit-consumed-completely", known ? tr->m_len == 0 : tr->m_len <= 1);
  dev.m_transport = nullptr;
}
#elif defined(H_CHUNK)
// The compared sequence is what the statement names: symbols and won/lost results, in delivery order. Observation
// OBS-C14-cancel-order (not a violation): *when* a cancelled arbitration (reset/error frame) is reported relative to a
// neighbouring symbol does depend on chunking -- with [00, RESETTED] in one chunk the call that delivers 00 already carries
// as_error, split after 00 it is reported by the next call. That a cancellation happened, and the arbitration state
// afterwards, are chunk-independent and asserted below.
struct Out { uint8_t n; uint8_t kind[2 * L]; uint8_t val[2 * L]; };   // kind 0: symbol, else the ArbitrationState reported
static void emit(Out* o, uint8_t kind, uint8_t val) { if (o->n < 2 * L) { o->kind[o->n] = kind; o->val[o->n] = val; } o->n++; }
// drains what is buffered: at most L calls, each consuming at least one byte or stopping
static void drain(EnhancedDevice& dev, MiniTransport* tr, Out* o) {
  bool stop = false;
  for (int i = 0; i < L; i++) {
    if (!stop) {
      symbol_t v = 0; ArbitrationState as = as_none;
      size_t before = tr->m_len;
      result_t r = dev.recv(0, &v, &as);
      if (as == as_won || as == as_lost) emit(o, static_cast<uint8_t>(as), 0);
      if (r >= RESULT_OK) emit(o, 0, v);
      if (tr->m_len == before || tr->m_len == 0) stop = true;
    }
  }
}
extern "C" void vp_main() {
  uint8_t s[L];
  for (int i = 0; i < L; i++) s[i] = vp_nondet_u8();
  uint8_t cut = static_cast<uint8_t>(1 + vp_nondet_u8() % (L - 1));   // 1..L-1
  uint8_t am = vp_nondet_u8();
  uint8_t ac = am == 0xAA ? 0 : (vp_nondet_u8() % 4);
  MiniTransport* t1 = new MiniTransport(); EnhancedDevice d1(t1); MiniListener l1; d1.setListener(&l1);
  MiniTransport* t2 = new MiniTransport(); EnhancedDevice d2(t2); MiniListener l2; d2.setListener(&l2);
  d1.m_arbitrationMaster = am; d1.m_arbitrationCheck = ac;
  d2.m_arbitrationMaster = am; d2.m_arbitrationCheck = ac;
  Out o1, o2; o1.n = 0; o2.n = 0;
  for (int i = 0; i < 2 * L; i++) { o1.kind[i] = o1.val[i] = o2.kind[i] = o2.val[i] = 0; }
  // (a) everything at once
  for (int i = 0; i < L; i++) t1->append(s[i]);
  drain(d1, t1, &o1);
  // (b) split at 'cut'
  for (int i = 0; i < L; i++) if (i < cut) t2->append(s[i]);
  drain(d2, t2, &o2);
  for (int i = 0; i < L; i++) if (i >= cut) t2->append(s[i]);
  drain(d2, t2, &o2);
  bool same = o1.n == o2.n;
  for (int i = 0; i < 2 * L; i++) if (i < o1.n && (o1.kind[i] != o2.kind[i] || o1.val[i] != o2.val[i])) same = false;
  vp_assert("decoded-symbols-and-arbitration-results-independent-of-chunking", same);
  vp_assert("diagnostic-notifications-independent-of-chunking", l1.m_nstatus == l2.m_nstatus && l1.m_errbits == l2.m_errbits);
  vp_assert("bytes-left-unconsumed-independent-of-chunking", t1->m_len == t2->m_len);
  vp_assert("arbitration-state-afterwards-independent-of-chunking", d1.m_arbitrationMaster == d2.m_arbitrationMaster && d1.m_arbitrationCheck == d2.m_arbitrationCheck);
  if (o1.n >= 2) vp_cover("two-events-decoded");
  if (l1.m_nstatus >= 1) vp_cover("diagnostic-raised");
  vp_observe("n", o1.n);
  d1.m_transport = nullptr; d2.m_transport = nullptr;
}
#elif defined(H_STREAM)
// every stream of L arbitrary bytes decodes to exactly the symbols and won/lost results the protocol definition assigns:
// reference decoder written from docs/enhanced_proto.md and the C14 statement (fixed-bound loops only)
struct Out { uint8_t n; uint8_t sym[L]; uint8_t kind[L]; };   // kind: 0 symbol, 1 arbitration won, 2 arbitration lost
extern "C" void vp_main() {
  uint8_t s[L];
  for (int i = 0; i < L; i++) s[i] = vp_nondet_u8();
  uint8_t am = vp_nondet_u8();
  uint8_t ac = am == 0xAA ? 0 : (vp_nondet_u8() % 4);
  MiniTransport* t1 = new MiniTransport(); EnhancedDevice d1(t1); MiniListener l1; d1.setListener(&l1);
  d1.m_arbitrationMaster = am; d1.m_arbitrationCheck = ac;
  Out o; o.n = 0;
  for (int i = 0; i < L; i++) { o.sym[i] = o.kind[i] = 0; t1->append(s[i]); }
  bool stop = false;
  for (int i = 0; i < L + 1; i++) {
    if (!stop) {
      symbol_t v = 0; ArbitrationState as = as_none;
      size_t before = t1->m_len;
      result_t r = d1.recv(0, &v, &as);
      if (r >= RESULT_OK) { if (o.n < L) { o.sym[o.n] = v; o.kind[o.n] = as == as_won ? 1 : as == as_lost ? 2 : 0; } o.n++; }
      if (t1->m_len == before || t1->m_len == 0) stop = true;
    }
  }
  // ---- reference ----
  Out ref; ref.n = 0;
  for (int i = 0; i < L; i++) { ref.sym[i] = ref.kind[i] = 0; }
  bool haveFirst = false; uint8_t first = 0;
  for (int i = 0; i < L; i++) {
    uint8_t b = s[i];
    if (haveFirst) {
      haveFirst = false;
      if ((b & 0xC0) == 0x80) {
        uint8_t cmd = (first >> 2) & 0x0f;
        uint8_t d = static_cast<uint8_t>(((first & 0x03) << 6) | (b & 0x3f));
        if (cmd == 1 || cmd == 2 || cmd == 0xa) { ref.sym[ref.n] = d; ref.kind[ref.n] = cmd == 2 ? 1 : cmd == 0xa ? 2 : 0; ref.n++; }
        // RESETTED, INFO, ERROR_* and undefined commands carry no bus symbol
      }
      // a byte that is not a second byte directly after a dangling first byte is lost together with it
    } else if (b < 0x80) { ref.sym[ref.n] = b; ref.kind[ref.n] = 0; ref.n++; }
    else if ((b & 0xC0) == 0xC0) { haveFirst = true; first = b; }
    // a second byte without first byte is dropped
  }
  bool same = o.n == ref.n;
  for (int i = 0; i < L; i++) if (i < ref.n && (o.sym[i] != ref.sym[i] || o.kind[i] != ref.kind[i])) same = false;
  vp_assert("stream-decodes-to-exactly-the-defined-symbols-and-results", same);
  if (ref.n == L) vp_cover("all-plain-symbols");
  if (ref.n >= 1 && ref.kind[0] == 1) vp_cover("arbitration-won-decoded");
  vp_observe("n", o.n);
  d1.m_transport = nullptr;
}
#elif defined(H_PLAIN)
// plain device (ebusd arbitrates itself): real PlainDevice::recv / send / startArbitration on the in-memory transport.
// One call from an arbitrary arbitration state with 1..L arbitrary buffered bytes: the first byte is delivered unchanged,
// exactly one byte is consumed, "more buffered" is signalled correctly, and the ONLY thing ever written is the armed master
// address, directly after a SYN that was the only buffered byte, while no arbitration check is pending (C03 clause (a) at
// device level); the following symbol decides won/lost by comparison with that address.
extern "C" void vp_main() {
  MiniTransport* tr = new MiniTransport();
  PlainDevice dev(tr);
  MiniListener lst;
  dev.setListener(&lst);
  uint8_t am = vp_nondet_u8();
  uint8_t ac = vp_nondet_u8() % 2;
  vp_assume(am != 0xAA || ac == 0);            // a pending check implies an armed address (set together by recv)
  dev.m_arbitrationMaster = am; dev.m_arbitrationCheck = ac;
  uint8_t n = static_cast<uint8_t>(1 + vp_nondet_u8() % L);
  uint8_t s[L];
  for (int i = 0; i < L; i++) { s[i] = vp_nondet_u8(); if (i < n) tr->append(s[i]); }
  symbol_t v = 0x55; ArbitrationState as = as_none;
  result_t r = dev.recv(0, &v, &as);
  vp_assert("first-buffered-byte-delivered-unchanged", r >= RESULT_OK && v == s[0]);
  vp_assert("exactly-one-byte-consumed", tr->m_len == static_cast<size_t>(n - 1));
  vp_assert("more-buffered-signalled-iff-bytes-remain", (r == RESULT_CONTINUE) == (n > 1));
  bool armed = am != 0xAA;
  bool mayWrite = armed && ac == 0 && s[0] == 0xAA && n == 1;
  vp_assert("writes-only-the-arbitration-address-after-a-lone-SYN", tr->m_nw == (mayWrite ? 1u : 0u) && (!mayWrite || tr->m_w[0] == am));
  if (mayWrite) { vp_assert("arbitration-now-running", as == as_running && dev.m_arbitrationCheck == 1 && dev.m_arbitrationMaster == am); vp_cover("arbitration-address-written"); }
  if (armed && ac == 1) {
    vp_assert("echo-decides-arbitration", as == (s[0] == am ? as_won : as_lost) && !dev.isArbitrating());
    if (s[0] == am) vp_cover("arbitration-won"); else vp_cover("arbitration-lost");
  }
  if (!armed) vp_assert("no-arbitration-no-state", as == as_none);
  // send writes exactly the symbol
  unsigned before = tr->m_nw;
  uint8_t x = vp_nondet_u8();
  vp_assert("send-ok", dev.send(x) == RESULT_OK && tr->m_nw == before + 1);
  dev.m_transport = nullptr;
}
#elif defined(H_INFO)
// C20: arbitrary INFO frames against an arbitrary info-transfer state: indices into m_infoBuf[17] and the reads of
// notifyInfoRetrieved (data[0..8]) must stay in bounds (built-in CBMC checks are the obligations here)
extern "C" void vp_main() {
  MiniTransport* tr = new MiniTransport();
  EnhancedDevice dev(tr);
  MiniListener lst;
  dev.setListener(&lst);
  dev.m_extraFeatures = vp_nondet_u8();
  // inductive step: the invariant (position <= 17, announced length <= 256) is assumed before and asserted after each frame,
  // so one frame covers INFO streams of any length; the buffer content is arbitrary
  uint16_t il = vp_nondet_u16(); uint8_t ip = vp_nondet_u8();
  vp_assume(il <= 256 && ip <= 17);
  dev.m_infoLen = il; dev.m_infoPos = ip;
  for (int i = 0; i < 17; i++) dev.m_infoBuf[i] = vp_nondet_u8();
  for (int f = 0; f < NF; f++) {
    uint8_t d = vp_nondet_u8();
    tr->append(static_cast<uint8_t>(0xC0 | (3 << 2) | (d >> 6)));   // <INFO> d
    tr->append(static_cast<uint8_t>(0x80 | (d & 0x3f)));
    symbol_t v = 0; ArbitrationState as = as_none;
    result_t r = dev.recv(0, &v, &as);
    vp_assert("info-frames-deliver-no-bus-symbol", r == RESULT_ERR_TIMEOUT);
    vp_assert("info-position-stays-inside-the-buffer", dev.m_infoPos <= 17);
    vp_assert("info-length-invariant-is-preserved", dev.m_infoLen <= 256);
  }
  if (dev.m_infoLen == 0 && il > 1) vp_cover("info-transfer-completed-or-reset");
  dev.m_transport = nullptr;
}
#elif defined(H_INFO2)
// C20: the consumer of a completed INFO transfer on an arbitrary buffer and announced length: every read of
// notifyInfoRetrieved must stay inside m_infoBuf[17] (built-in CBMC checks are the obligations); the frame-level step
// (H_INFO) calls it only with m_infoPos >= m_infoLen, i.e. the announced length is what has been stored
extern "C" void vp_main() {
  MiniTransport* tr = new MiniTransport();
  EnhancedDevice dev(tr);
  MiniListener lst;
  dev.setListener(&lst);
  dev.m_extraFeatures = vp_nondet_u8();
  for (int i = 0; i < 17; i++) dev.m_infoBuf[i] = vp_nondet_u8();
#ifdef INFO_LEN
  // one defined response: announced length and id concrete, payload arbitrary
  uint16_t il = INFO_LEN + 1;
  dev.m_infoBuf[0] = INFO_ID;
#else
  // everything that is not a defined response: arbitrary announced length and id
  uint16_t il = vp_nondet_u16();
  vp_assume(il >= 1 && il <= 256);
  {
    uint32_t key = (static_cast<uint32_t>(il - 1) << 8) | dev.m_infoBuf[0];
    vp_assume(key != 0x0200 && key != 0x0500 && key != 0x0800 && key != 0x0901 && key != 0x0802 && key != 0x0302
              && key != 0x0203 && key != 0x0204 && key != 0x0205 && key != 0x0206 && key != 0x0107);
  }
#endif
  dev.m_infoLen = il; dev.m_infoPos = il <= 17 ? il : 17;
  dev.notifyInfoRetrieved();
  vp_cover("response-consumed");
  vp_observe("pos", dev.m_infoPos);
  dev.m_transport = nullptr;
}
#else
#error "select a harness"
#endif
