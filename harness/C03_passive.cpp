// C03 / C04 -- passive states with requests waiting and the device possibly armed for arbitration, S shape (one inductive step).
// Generalises the passive step of C01 (C01_step.cpp: queues empty, device idle) to EVERY passive handler state with 0..2
// requests in the queue, 0..1 in the finished queue and every arbitration state of the plain device (idle / armed and waiting
// for a lone SYN / own address written and its echo awaited). Together with C02_step.cpp (states with an own exchange in
// progress) the relation covers every state of the bus thread, so by induction the assertions hold after histories of any
// length. Assertion groups by -DPROP:
//   3: every write is (a) the arbitration address of the head request directly after a lone SYN while the device was armed,
//      or (d) an AUTO-SYN after a timed-out read of at least the generation interval in noSignal/skip; arming happens only
//      with expired lock counter, a pending request, no current request, in skip/ready, not read-only; nothing else is written
//   4: request bookkeeping (exactly one place, completed at most once, only on lost arbitration / device error / no signal)
#include "env_bus.h"
static uint8_t tableStep(uint8_t c, uint8_t v) { ebusd::SymbolString::updateCrc(v, &c); return c; }
#ifndef REF_BITSERIAL
#define REF_CRC_STEP(c, v) tableStep(c, v)   // justified by C11/crc_step
#endif
#ifndef NNMAX
#define NNMAX 3
#endif
#ifndef PROP
#define PROP 3
#endif
#define CAP (NNMAX + 5)
#define REF_MAXL CAP
#include "ref_bus.h"

// events of the current step, in order: kind 1 = symbol read (lone: nothing else buffered), 2 = symbol written
static uint8_t g_evKind[8], g_evByte[8], g_evLone[8];
static uint8_t g_nEv = 0, g_nRd = 0, g_nWr = 0;
namespace ebusd {
void env_on_read(uint8_t b, bool lone) { if (g_nEv < 8) { g_evKind[g_nEv] = 1; g_evByte[g_nEv] = b; g_evLone[g_nEv] = lone; } g_nEv++; g_nRd++; }
void env_on_write(uint8_t b) { if (g_nEv < 8) { g_evKind[g_nEv] = 2; g_evByte[g_nEv] = b; g_evLone[g_nEv] = 0; } g_nEv++; g_nWr++; }
}
#include "rel_bus.h"

// extra invariant over device arbitration state and queue (the part of the global invariant the passive relation adds)
static bool queueInv(const ebus_protocol_config_t& cfg, DirectProtocolHandler& h, const P& p) {
  PlainDevice* d = static_cast<PlainDevice*>(h.m_device);
  symbol_t am = d->m_arbitrationMaster;
  size_t chk = d->m_arbitrationCheck;
  BusRequest* head = h.m_nextRequests.peek();
  if (cfg.readOnly && (head != nullptr || am != SYN || chk != 0)) return false;   // addRequest refuses requests when read-only
  if (chk > 1 || (chk == 1 && am == SYN)) return false;
  if (am != SYN && (head == nullptr || head->getMaster()[0] != am)) return false;  // armed only for the head request
  // the address is written directly after a SYN; until its echo is checked only a timeout/error can have happened
  if (chk == 1 && !((p.ph == P::QQ && !p.cmdRepeat && !p.esc && p.crc == 0 && h.m_state == bs_ready) || p.ph == P::IDLE)) return false;
  return true;
}

#ifdef VP_NATIVE
#include <cstdio>
#include <cstdlib>
static void dump(const char* tag, DirectProtocolHandler& h, const P& p, TapeTransport* tr) {
  if (!getenv("VP_DEBUG")) return;
  PlainDevice* d = static_cast<PlainDevice*>(h.m_device);
  fprintf(stderr, "%s: h.state=%d cur=%p esc=%02x crc=%02x repeat=%d lock=%u cmd[%zu] res[%zu] dev=(%02x,%zu) head=%p genSyn=%u| ph=%d esc=%d crc=%02x mlen=%d slen=%d| ev:", tag, h.m_state,
    (void*)h.m_currentRequest, h.m_escape, h.m_crc, h.m_repeat, h.m_remainLockCount, h.m_command.size(), h.m_response.size(), d->m_arbitrationMaster, d->m_arbitrationCheck,
    (void*)h.m_nextRequests.peek(), h.m_generateSynInterval, p.ph, p.esc, p.crc, p.mlen, p.slen);
  for (int i = 0; i < g_nEv && i < 8; i++) fprintf(stderr, " %c%02x%s", g_evKind[i] == 1 ? 'R' : 'W', g_evByte[i], g_evLone[i] ? "." : "");
  fprintf(stderr, " | notify0=%d res0=%d notify1=%d\n", g_notifyCount[0], g_notifyResult[0], g_notifyCount[1]);
}
#else
#define dump(a, b, c, d) ((void)0)
#endif

static void fillRequest(RecRequest* q, const uint8_t* M) {
  uint8_t total = static_cast<uint8_t>(5 + M[4]);
  q->m_own.m_data.reserve(CAP + 2);
  for (int i = 0; i < CAP; i++) q->m_own.m_data.push_back(M[i]);
  q->m_own.m_data._M_impl._M_finish = q->m_own.m_data._M_impl._M_start + total;
}

extern "C" void vp_main() {
  ebus_protocol_config_t cfg = env_config();
  TapeTransport* tr = new TapeTransport();
  tr->m_allowWriteErrors = false;
  PlainDevice* dev = new PlainDevice(tr);
  static RecListener lst;
  DirectProtocolHandler& h = *new DirectProtocolHandler(cfg, dev, &lst);
  static S r;
  P& p = r.p;
  // ---- arbitrary recogniser state ----
  p.ph = vp_nondet_u8(); p.esc = vp_nondet_bool(); p.cmdRepeat = vp_nondet_bool(); p.resRepeat = vp_nondet_bool();
  p.crcOk = vp_nondet_bool(); p.crc = vp_nondet_u8(); p.need = vp_nondet_u8();
  p.mlen = vp_nondet_u8(); p.slen = vp_nondet_u8();
  vp_assume(p.mlen <= CAP && p.slen <= CAP);
  for (int i = 0; i < CAP; i++) { p.m[i] = vp_nondet_u8(); p.s[i] = vp_nondet_u8(); }
  vp_assume(refInv(p));
  // ---- requests: NQ waiting (job parameter), optionally one finished ----
  uint8_t M0[CAP], M1[CAP];
  for (int i = 0; i < CAP; i++) { M0[i] = vp_nondet_u8(); M1[i] = vp_nondet_u8(); }
  vp_assume(ref::is_master(M0[0]) && ref::valid_addr(M0[1]) && M0[1] != M0[0] && M0[4] <= NNMAX);
  vp_assume(ref::is_master(M1[0]) && ref::valid_addr(M1[1]) && M1[1] != M1[0] && M1[4] <= NNMAX);
  bool del0 = vp_nondet_bool(), del1 = vp_nondet_bool();
  RecRequest* req0 = new RecRequest(0, del0);
  RecRequest* req1 = new RecRequest(1, del1);
  RecRequest* req2 = new RecRequest(2, false);
  fillRequest(req0, M0); fillRequest(req1, M1);
  req0->m_busLostRetries = vp_nondet_u8() % 4;
  req1->m_busLostRetries = vp_nondet_u8() % 4;
  g_restart[0] = vp_nondet_bool(); g_restart[1] = vp_nondet_bool();
#if NQ >= 1
  h.m_nextRequests.push(req0);
#endif
#if NQ >= 2
  h.m_nextRequests.push(req1);
#endif
  bool haveFinished = vp_nondet_bool();
  if (haveFinished) h.m_finishedRequests.push(req2);
  // ---- device arbitration state (job parameter ARM: 0 idle, 1 armed, 2 address written) ----
#if ARM >= 1
  dev->m_arbitrationMaster = M0[0];
#endif
#if ARM == 2
  dev->m_arbitrationCheck = 1;
#endif
  // ---- a passive handler state related to the recogniser ----
  // handler state group (job parameter HGROUP): 0 noSignal, 1 skip, 2 ready, 9 any of the six receiving states
#if HGROUP == 9
  uint8_t hs = vp_nondet_u8();
  vp_assume(hs >= bs_recvCmd && hs <= bs_recvResAck);
  h.m_state = static_cast<BusState>(hs);
#else
  h.m_state = static_cast<BusState>(HGROUP);
#endif
  uint8_t cm[CAP], rs[CAP];
  uint8_t cl = vp_nondet_u8(), rl = vp_nondet_u8();
  vp_assume(cl <= CAP && rl <= CAP);
  for (int i = 0; i < CAP; i++) { cm[i] = vp_nondet_u8(); rs[i] = vp_nondet_u8(); }
  setVec(h.m_command.m_data, cm, cl);
  setVec(h.m_response.m_data, rs, rl);
  h.m_crc = vp_nondet_u8(); h.m_escape = vp_nondet_u8(); h.m_crcValid = vp_nondet_bool(); h.m_repeat = vp_nondet_bool();
  h.m_nextSendPos = vp_nondet_u8();
  h.m_currentAnswering = vp_nondet_bool();   // may be left set in noSignal (rel_bus.h)
  h.m_remainLockCount = vp_nondet_u8();
  h.m_lockCount = vp_nondet_u8();
  h.m_masterCount = vp_nondet_u8();
  h.m_addressConflict = vp_nondet_bool();
  for (int i = 0; i < 256; i++) h.m_seenAddresses[i] = vp_nondet_bool();
  h.m_symbolLatencyMin = static_cast<int>(vp_nondet_u32()); h.m_symbolLatencyMax = static_cast<int>(vp_nondet_u32());
  h.m_lastSynReceiveTime.tv_sec = static_cast<time_t>(vp_nondet_u32());
  { uint32_t ns = vp_nondet_u32(); vp_assume(ns < 1000000000u); h.m_lastSynReceiveTime.tv_nsec = static_cast<long>(ns); }
  h.m_lastReceive = static_cast<time_t>(vp_nondet_u32());
  if (cfg.generateSyn && vp_nondet_bool()) h.m_generateSynInterval = SYN_INTERVAL;
  h.m_listenerState = static_cast<ProtocolState>(vp_nondet_u8() % 6);
  vp_assume(related(h, p, false, true));
  vp_assume(queueInv(cfg, h, p));
  uint8_t buffered = vp_nondet_u8();
  vp_assume(buffered <= ENV_MAXCHUNK);
  for (uint8_t i = 0; i < ENV_MAXCHUNK; i++) tr->m_buf[i] = vp_nondet_u8();
  tr->m_len = buffered;
  Stepper st(&h);
  st.cont = vp_nondet_bool();                // previous receive returned "more buffered"
  vp_assume(!st.cont || tr->m_len >= 1);
  st.result = st.cont ? RESULT_CONTINUE : RESULT_OK;
  // ---- pre-state facts the assertions refer to ----
  BusState preState = h.m_state;
  unsigned preLock = h.m_remainLockCount;
  unsigned preGen = h.m_generateSynInterval;
  symbol_t preAm = dev->m_arbitrationMaster;
  size_t preChk = dev->m_arbitrationCheck;
  bool preCont = st.cont;
  uint8_t retries0 = static_cast<uint8_t>(req0->m_busLostRetries);
  unsigned faultsBefore = tr->m_nfault;
  r.arb = preChk == 1 && p.ph == P::QQ;
  r.M[0] = preAm;
  g_nEv = g_nRd = g_nWr = 0;
  dump("pre ", h, p, tr);
  st.step();
  // ---- the monitor consumes the step's events in order ----
  bool fault = tr->m_nfault != faultsBefore;
  vp_assert("harness: event buffer large enough", g_nEv <= 8);
  bool won = false, lost = false, lateEcho = false;
  {
    bool first = true;
    bool faultPending = fault;
    // a fault (timeout/error) precedes everything else of the step except when nothing at all was read before it
    bool autoSyn = fault && g_nWr >= 1 && g_evKind[0] == 2 && g_evByte[0] == 0xAA;
    if (fault && (autoSyn || g_nRd == 0)) { r.fault(); faultPending = false; first = false; }
    for (int i = 0; i < 8; i++) {
      if (i < g_nEv && g_evKind[i] == 1) {
        if (first && r.arb) { r.sym(false, 0, g_evByte[i]); won = r.own; lost = r.lost; }
        else if (first && preChk == 1 && g_evByte[i] == preAm) {
          // late echo of the own arbitration address (a read timed out between the write and its echo): the address was
          // written directly after a SYN, so on the wire it IS the first symbol after that SYN; ebusd declines to continue
          // ("won in invalid state") and receives it as the source of a telegram. The monitor re-synchronises likewise.
          lateEcho = true;
          p.syn(); p.sym(g_evByte[i]);
        }
        else { r.arb = false; p.sym(g_evByte[i]); }
        first = false;
      }
    }
    if (faultPending) r.fault();
  }
  dump("post", h, p, tr);
  symbol_t postAm = dev->m_arbitrationMaster;
  size_t postChk = dev->m_arbitrationCheck;
  // index of the arbitration address write, if any: a write that is not the AUTO-SYN
  bool autoSynWritten = g_nWr >= 1 && fault && g_evKind[0] == 2 && g_evByte[0] == 0xAA && (preState == bs_noSignal || preState == bs_skip);
#if PROP == 3
  {
    // ---- every write of the step is justified ----
    uint8_t nAddr = 0;
    bool addrOk = true;
    for (int i = 0; i < 8; i++) {
      if (i < g_nEv && g_evKind[i] == 2 && !(i == 0 && autoSynWritten)) {
        nAddr++;
        // directly after reading a lone SYN, and it is the address of the head request
        if (!(i >= 1 && g_evKind[i - 1] == 1 && g_evByte[i - 1] == 0xAA && g_evLone[i - 1] == 1)) addrOk = false;
        if (g_evByte[i] != M0[0]) addrOk = false;
      }
    }
    vp_assert("at-most-one-arbitration-address-per-step", nAddr <= 1);
    vp_assert("arbitration-address-only-directly-after-a-lone-syn-and-it-is-the-head-requests-source", addrOk);
    if (nAddr >= 1) vp_assert("arbitration-address-only-with-a-pending-request-and-not-read-only", NQ >= 1 && !cfg.readOnly);
    if (g_nWr >= 1 && fault && g_evKind[0] == 2 && g_evByte[0] == 0xAA) {
      vp_assert("auto-syn-only-when-configured-after-silence-in-nosignal-or-skip",
                cfg.generateSyn && !cfg.readOnly && preGen > 0 && (preState == bs_noSignal || preState == bs_skip) && !preCont && tr->m_lastTimeout >= preGen);
    }
    if (cfg.readOnly) vp_assert("read-only-never-writes", g_nWr == 0);
    if (NQ == 0 && !cfg.generateSyn) vp_assert("nothing-to-send-nothing-written", g_nWr == 0);
    // arming: the device is told to arbitrate only when entitled
    bool armedNow = preAm == SYN && (postAm != SYN || nAddr >= 1);
    if (armedNow) vp_assert("arming-only-with-expired-lock-counter-pending-request-no-current-request-in-skip-or-ready",
                            preLock == 0 && NQ >= 1 && !cfg.readOnly && (preState == bs_skip || preState == bs_ready) && !preCont);
#if NQ >= 1 && (ARM == 1 || (ARM == 0 && (HGROUP == 1 || HGROUP == 2)))   // armed before, or armed in this step (skip/ready only)
    if (nAddr == 1) vp_cover("arbitration-address-written-after-lone-syn");
#endif
#if HGROUP <= 1 && (!defined(ENV_GENSYN) || ENV_GENSYN == 1)
    if (autoSynWritten) vp_cover("auto-syn-written");
#endif
  }
#endif
#if PROP == 4
  {
    bool noSignal = h.m_state == bs_noSignal;
    bool devError = tr->m_nrderr != 0;
    // the device was armed when the step read from it: armed before, or armed by this step's handleSend
    bool armedInStep = preAm == SYN && NQ >= 1 && !cfg.readOnly && !preCont && preLock == 0 && (preState == bs_skip || preState == bs_ready);
    bool lostNow = (preChk == 1 && g_nRd >= 1 && !won && !lateEcho && !(fault && g_nRd == 0)) || ((preAm != SYN || armedInStep) && devError);
    // a no-signal drain can only happen when the handler was in, or went to, noSignal during the step (setState(bs_noSignal)
    // or setState(m_state) while m_state is noSignal); it completes EVERY queued request with NO_SIGNAL and ignores the
    // callback's restart answer
    bool drainPossible = noSignal || preState == bs_noSignal;
    if (lateEcho && !drainPossible && NQ >= 1) vp_assert("late-echo-leaves-the-request-queued", g_notifyCount[0] == 0 && countIn(h.m_nextRequests, req0) == 1 && h.m_currentRequest == nullptr);
    for (int k = 0; k < 2; k++) {
      RecRequest* q = k == 0 ? req0 : req1;
      bool present = k == 0 ? NQ >= 1 : NQ >= 2;
      if (present) {
        unsigned inNext = countIn(h.m_nextRequests, q), inFin = countIn(h.m_finishedRequests, q);
        bool cur = h.m_currentRequest == q;
        uint8_t cnt = g_notifyCount[k];
        bool del = k == 0 ? del0 : del1;
        bool drainedNow = cnt >= 1 && g_notifyResult[k] == RESULT_ERR_NO_SIGNAL;   // the last completion was the drain
        vp_assert("request-is-in-exactly-one-place", (cur ? 1u : 0u) + inNext + inFin + g_deleted[k] == 1);
        if (cur) vp_assert("current-request-not-completed-yet", cnt == 0);
        if (inFin == 1) vp_assert("finished-queue-only-after-completion-of-a-waited-request", cnt >= 1 && !del);
        if (g_deleted[k] == 1) vp_assert("deleted-only-after-completion-of-a-self-deleting-request", cnt >= 1 && del);
        if (drainedNow) vp_assert("no-signal-drain-only-in-or-into-nosignal", drainPossible);
        // exactly once: a second completion only as the drain of the new life of a request that asked for a restart
        vp_assert("completed-at-most-once", cnt <= 1 || (cnt == 2 && g_restart[k] && drainedNow && k == 0));
        if (cnt >= 1 && g_restart[k] && !drainedNow) vp_assert("restart-requeues-the-request", cnt == 1 && inNext == 1);
        if (cnt >= 1 && !(cnt == 1 && g_restart[k] && inNext == 1)) {
          if (del) vp_assert("self-deleting-request-deleted-once-and-nowhere-queued", g_deleted[k] == 1 && inNext == 0 && inFin == 0);
          else vp_assert("waited-request-handed-to-the-finished-queue-once", g_deleted[k] == 0 && inNext == 0 && inFin == 1);
        }
        // a timeout or device error that leaves the handler in noSignal drains the queue
        if (noSignal && fault) vp_assert("no-signal-completes-every-request", cnt >= 1 && inNext == 0 && !cur);
        // otherwise a waiting request is completed only by a lost/cancelled arbitration, and only the head request
        if (cnt >= 1 && !drainedNow) vp_assert("completed-only-by-lost-arbitration", k == 0 && cnt == 1 && lostNow && g_notifyResult[0] == RESULT_ERR_BUS_LOST);
        if (k == 1 && !drainedNow) vp_assert("second-request-untouched", cnt == 0 && inNext == 1);
      }
    }
    if (NQ >= 1 && lostNow && !(g_notifyCount[0] >= 1 && g_notifyResult[0] == RESULT_ERR_NO_SIGNAL)) {
      bool retry = retries0 < cfg.busLostRetries;
      if (retry) vp_assert("bus-lost-retry-requeues-without-notification", g_notifyCount[0] == 0 && countIn(h.m_nextRequests, req0) == 1 && req0->m_busLostRetries == retries0 + 1);
      else vp_assert("lost-arbitration-completes-the-request", g_notifyCount[0] == 1);
#if ARM >= 1
      vp_cover("arbitration-lost-or-cancelled");
#endif
    }
    if (won) vp_assert("won-request-becomes-current", h.m_currentRequest == req0 && g_notifyCount[0] == 0);
    if (haveFinished) vp_assert("finished-bystander-untouched", g_notifyCount[2] == 0 && g_deleted[2] == 0 && countIn(h.m_finishedRequests, req2) == 1 && countIn(h.m_nextRequests, req2) == 0);
  }
#endif
  // ---- induction: the successor state is in the global relation again ----
  bool inBound = p.mlen <= CAP && p.slen <= CAP && (p.ph != P::DATA || 5 + p.m[4] <= CAP) && (p.ph != P::RDATA || 1 + p.s[0] <= CAP);
  if (inBound) {
    if (h.m_currentRequest != nullptr) {
      // arbitration won in this step: entry into the active relation of C02_step.cpp
      for (int i = 0; i < CAP; i++) r.M[i] = M0[i];
      vp_assert("won-arbitration-enters-the-active-relation", won && r.own && relatedActive(h, r, req0) && senderInv(r));
#if ARM == 2 && HGROUP == 2
      vp_cover("arbitration-won");
#endif
    } else {
      vp_assert("passive-relation-preserved (induction step)", related(h, p, false, true));
      vp_assert("queue-and-device-invariant-preserved", queueInv(cfg, h, p));
      vp_assert("recogniser-invariant-preserved", refInv(p));
    }
  }
  vp_observe("state", h.m_state);
  vp_observe("ph", p.ph);
  vp_observe("nwr", g_nWr);
}
