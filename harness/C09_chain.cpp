// C09 -- chained messages: parts are re-joined into one value without loss, duplication or reordering of bytes.
// Real code: ChainedMessage::storeLastData(master, slave) -> checkId -> storeLastData(index, master|slave) ->
// combineLastParts -> Message::storeLastData (message.cpp), SymbolString members (symbol.h), over K arrivals of parts in an
// ARBITRARY order (repetitions included) at arbitrary non-decreasing clock readings.
// The ChainedMessage is constructed partially (ID, part IDs, part buffers, update times, last-data members); its vtable
// pointer is set by hand to the real vtable so that the virtual calls inside the real code dispatch for real.
#include "vp.h"
#include <time.h>
#include "lib/utils/log.h"
namespace ebusd {
bool needsLog(const LogFacility, const LogLevel) { return false; }
void logWrite(const LogFacility, const LogLevel, const char*, ...) {}
void logWrite(const char*, const LogLevel, const char*, ...) {}
}
static uint64_t env_now = 1000000;
extern "C" time_t time(time_t* t) __THROW {
  env_now += vp_nondet_u8() % 4;
  if (t) *t = static_cast<time_t>(env_now);
  return static_cast<time_t>(env_now);
}
#include "lib/ebus/message.h"
#include <new>
using namespace ebusd;
extern "C" void* _ZTVN5ebusd14ChainedMessageE[];
#ifndef P
#define P 2      // parts
#endif
#ifndef K
#define K 3      // arrivals
#endif
#ifndef PREFIX
#define PREFIX 1 // chain prefix length (ID bytes shared by all parts)
#endif
#define IDLEN (PREFIX + 1)   // full ID length: prefix + one suffix byte that tells the parts apart
#ifndef LM
#define LM 1     // master data bytes per part (after the ID)
#endif
#ifndef LS
#define LS 2     // slave data bytes per part
#endif
#define MAXDIFF 3
#ifndef ORD2
#define ORD2 0
#endif
#ifndef ORD3
#define ORD3 0
#endif
#ifndef ORD4
#define ORD4 0
#endif
#ifndef ORD5
#define ORD5 0
#endif

extern "C" void vp_main() {
  ChainedMessage* cm = static_cast<ChainedMessage*>(operator new(sizeof(ChainedMessage)));
  *reinterpret_cast<void***>(cm) = &_ZTVN5ebusd14ChainedMessageE[2];
  uint8_t pb = vp_nondet_u8(), sb = vp_nondet_u8(), prefix[PREFIX + 1], suffix[P];
  // the ID bytes are concrete (prefix 0d.., suffix = part number): their values play no role in joining, only their
  // equality structure does, and concrete IDs keep the part index found by the real checkId concrete
  for (int i = 0; i < PREFIX; i++) prefix[i] = static_cast<uint8_t>(0x0d + i);
  for (int i = 0; i < P; i++) suffix[i] = static_cast<uint8_t>(i);
  {
    vector<symbol_t>* id = new (const_cast<vector<symbol_t>*>(&cm->m_id)) vector<symbol_t>();
    id->reserve(8);
    id->push_back(pb); id->push_back(sb);
    for (int i = 0; i < PREFIX; i++) id->push_back(prefix[i]);
    vector<vector<symbol_t>>* ids = new (const_cast<vector<vector<symbol_t>>*>(&cm->m_ids)) vector<vector<symbol_t>>();
    ids->reserve(P + 1);
    for (int p = 0; p < P; p++) {
      vector<symbol_t> one;
      one.reserve(8);
      one.push_back(pb); one.push_back(sb);
      for (int i = 0; i < PREFIX; i++) one.push_back(prefix[i]);
      one.push_back(suffix[p]);
      ids->push_back(one);
    }
  }
  const_cast<time_t&>(cm->m_maxTimeDiff) = MAXDIFF;
  const_cast<bool&>(cm->m_isWrite) = false;
  const_cast<symbol_t&>(cm->m_dstAddress) = 0x08;
  new (&cm->m_lastMasterData) MasterSymbolString();
  new (&cm->m_lastSlaveData) SlaveSymbolString();
  cm->m_lastMasterData.m_data.reserve(40);
  cm->m_lastSlaveData.m_data.reserve(40);
  cm->m_lastUpdateTime = 0; cm->m_lastChangeTime = 0;
  cm->m_lastMasterDatas = new MasterSymbolString*[P];
  cm->m_lastSlaveDatas = new SlaveSymbolString*[P];
  cm->m_lastMasterUpdateTimes = new time_t[P];
  cm->m_lastSlaveUpdateTimes = new time_t[P];
  for (int p = 0; p < P; p++) {
    cm->m_lastMasterDatas[p] = new MasterSymbolString(); cm->m_lastMasterDatas[p]->m_data.reserve(16);
    cm->m_lastSlaveDatas[p] = new SlaveSymbolString(); cm->m_lastSlaveDatas[p]->m_data.reserve(16);
    cm->m_lastMasterUpdateTimes[p] = 0; cm->m_lastSlaveUpdateTimes[p] = 0;
  }
  // ghost: what arrived last for each part, and when
  bool have[P]; uint64_t when[P]; uint8_t md[P][LM + 1], sd[P][LS + 1];
  for (int p = 0; p < P; p++) { have[p] = false; when[p] = 0; }
  uint8_t qq = 0x31, zz = 0x08;
  bool everCombined = false;
  uint8_t cmb_m[P * LM + 1], cmb_s[P * LS + 1];
  for (int k = 0; k < K; k++) {
    // the arrival order is a job parameter (one job per order): a symbolic part index makes every buffer access a case split
    static const uint8_t ORDER[6] = {ORD0, ORD1, ORD2, ORD3, ORD4, ORD5};
    const uint8_t p = ORDER[k];
    MasterSymbolString ma; SlaveSymbolString sl;
    ma.m_data.reserve(16); sl.m_data.reserve(16);
    ma.push_back(qq); ma.push_back(zz); ma.push_back(pb); ma.push_back(sb); ma.push_back(IDLEN + LM);
    for (int i = 0; i < PREFIX; i++) ma.push_back(prefix[i]);
    ma.push_back(suffix[p]);
    uint8_t nm[LM + 1], ns[LS + 1];
    for (int i = 0; i < LM; i++) { nm[i] = vp_nondet_u8(); ma.push_back(nm[i]); }
    sl.push_back(LS);
    for (int i = 0; i < LS; i++) { ns[i] = vp_nondet_u8(); sl.push_back(ns[i]); }
    result_t res = cm->ChainedMessage::storeLastData(ma, sl);
    for (int i = 0; i < LM; i++) md[p][i] = nm[i];
    for (int i = 0; i < LS; i++) sd[p][i] = ns[i];
    have[p] = true; when[p] = env_now;   // both halves of a part are stored in the same call; the clock may tick between them
    bool all = true; uint64_t lo = when[0], hi = when[0];
    for (int q = 0; q < P; q++) { if (!have[q]) all = false; if (when[q] < lo) lo = when[q]; if (when[q] > hi) hi = when[q]; }
    // the clock may advance by up to 3 s between the master and the slave half of this call: a spread that is only then too
    // large is left to the implementation (both outcomes accepted); clear cases are asserted
    bool clearlyIn = all && hi - lo + 3 <= MAXDIFF;
    bool clearlyOut = !all || hi - lo > MAXDIFF + 3;
    if (clearlyOut) vp_assert("parts-missing-or-too-far-apart: no combined value yet", res == RESULT_CONTINUE);
    if (clearlyIn) vp_assert("all-parts-present-in-time: combined", res == RESULT_OK);
    if (res == RESULT_OK) {
      vp_assert("combined-only-when-every-part-arrived", all);
      everCombined = true;
      for (int q = 0; q < P; q++) { for (int i = 0; i < LM; i++) cmb_m[q * LM + i] = md[q][i]; for (int i = 0; i < LS; i++) cmb_s[q * LS + i] = sd[q][i]; }
#ifdef EXPECT_COMBINE
      vp_cover("parts-combined");
#endif
    }
    // the combined value: header, full ID of the first part, master data of all parts in part order; slave likewise
    const MasterSymbolString& cmaster = cm->m_lastMasterData; const SlaveSymbolString& cslave = cm->m_lastSlaveData;
    if (!everCombined) {
      vp_assert("nothing-stored-before-the-first-complete-set", cmaster.size() == 0 && cslave.size() == 0);
    } else {
      bool okm = cmaster.size() == 5 + IDLEN + P * LM && cmaster.data()[0] == qq && cmaster.data()[1] == zz && cmaster.data()[2] == pb && cmaster.data()[3] == sb
                 && cmaster.data()[4] == IDLEN + P * LM;
      for (int i = 0; i < PREFIX; i++) if (cmaster.size() > static_cast<size_t>(5 + i) && cmaster.data()[5 + i] != prefix[i]) okm = false;
      if (cmaster.size() > 5 + PREFIX && cmaster.data()[5 + PREFIX] != suffix[0]) okm = false;
      for (int i = 0; i < P * LM; i++) if (cmaster.size() > static_cast<size_t>(5 + IDLEN + i) && cmaster.data()[5 + IDLEN + i] != cmb_m[i]) okm = false;
      vp_assert("combined-master = header + ID of the first part + master data of all parts in part order, NN adjusted", okm);
      bool oks = cslave.size() == 1 + P * LS && cslave.data()[0] == P * LS;
      for (int i = 0; i < P * LS; i++) if (cslave.size() > static_cast<size_t>(1 + i) && cslave.data()[1 + i] != cmb_s[i]) oks = false;
      vp_assert("combined-slave = NN + slave data of all parts in part order (no loss, duplication or reordering)", oks);
    }
  }
  vp_observe("combined", everCombined);
}
