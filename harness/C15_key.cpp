// C15 -- answer key kernel: real DirectProtocolHandler::createAnswerKey (the key under which setAnswer registers and
// getAnswer looks up answers). Two registrations collide iff they agree on source class, destination, PB, SB, ID length
// and ID bytes; every shift amount is in range. createAnswerKey uses no member state, so it is called on raw storage.
// DESIGN.md section 4/C15 (the full lookup harness C15_lookup.cpp is beyond the solver cap, see DESIGN section 8).
#include "env_bus.h"
using namespace ebusd;
namespace ebusd {
void env_on_read(uint8_t, bool) {}
void env_on_write(uint8_t) {}
}
#ifndef IDMAX
#define IDMAX 4
#endif
static bool refMaster(uint8_t a) {
  uint8_t l = a & 0x0f, h = a >> 4;
  return (l == 0 || l == 1 || l == 3 || l == 7 || l == 15) && (h == 0 || h == 1 || h == 3 || h == 7 || h == 15);
}
extern "C" void vp_main() {
  alignas(16) static unsigned char raw[sizeof(DirectProtocolHandler)];
  DirectProtocolHandler* h = reinterpret_cast<DirectProtocolHandler*>(raw);
  uint8_t s1 = vp_nondet_u8(), d1 = vp_nondet_u8(), p1 = vp_nondet_u8(), b1 = vp_nondet_u8(), n1 = vp_nondet_u8();
  uint8_t s2 = vp_nondet_u8(), d2 = vp_nondet_u8(), p2 = vp_nondet_u8(), b2 = vp_nondet_u8(), n2 = vp_nondet_u8();
  uint8_t i1[IDMAX], i2[IDMAX];
  for (int k = 0; k < IDMAX; k++) { i1[k] = vp_nondet_u8(); i2[k] = vp_nondet_u8(); }
  vp_assume(n1 <= IDMAX && n2 <= IDMAX);
  // sources are SYN (= any source) or a master, as setAnswer requires
  vp_assume((s1 == 0xAA || refMaster(s1)) && (s2 == 0xAA || refMaster(s2)));
  vp_known("KF-C15-NN-GT4-SHIFT", n1 > 4 || n2 > 4);   // region of the (fixed) finding: ID lengths beyond 4
  uint64_t k1 = h->createAnswerKey(s1, d1, p1, b1, i1, n1);
  uint64_t k2 = h->createAnswerKey(s2, d2, p2, b2, i2, n2);
  bool sameTuple = s1 == s2 && d1 == d2 && p1 == p2 && b1 == b2 && n1 == n2;
  for (int k = 0; k < IDMAX; k++) if (k < n1 && i1[k] != i2[k]) sameTuple = false;
  vp_assert("answer-keys-equal-iff-same-source-destination-command-and-id", (k1 == k2) == sameTuple);
  // the lookup's "any source" fallback clears exactly the source bits
  uint64_t anySrc = h->createAnswerKey(0xAA, d1, p1, b1, i1, n1);
  vp_assert("any-source-key-is-the-key-without-source-bits", anySrc == (k1 & ~(0x1fULL << 56)));
  if (k1 == k2 && n1 == 4) vp_cover("equal-keys-with-full-id");
  if (k1 != k2 && s1 != s2 && d1 == d2) vp_cover("keys-differ-by-source-only");
  vp_observe("k1", k1);
}
