// C13 -- condition resolution kernel: real DataFieldSet::hasField / SingleDataField::hasField ("a condition resolves iff
// the referenced message has the named -- or, if unnamed, a first -- field of the required kind, whatever the number and
// kinds of its fields"). DESIGN.md section 4/C13 "K c13_hasfield". Field names are a job parameter (concrete), kinds symbolic.
#include "vp.h"
#include "lib/utils/log.h"
namespace ebusd {
bool needsLog(const LogFacility, const LogLevel) { return false; }
void logWrite(const LogFacility, const LogLevel, const char*, ...) {}
void logWrite(const char*, const LogLevel, const char*, ...) {}
}
#include <new>
#include "lib/ebus/data.h"
using namespace ebusd;
#ifndef NF
#define NF 2
#endif
#ifndef NAMES
#define NAMES "ab"      // one character per field
#endif
extern "C" void vp_main() {
  static const NumberDataType numType("UCH", 8, 0, 0xff, 0, 0xfe, 1);
  static const StringDataType strType("STR", MAX_LEN * 8, ADJ, ' ');
  const std::map<std::string, std::string> noAttrs;
  const char names[] = NAMES;
  bool isNum[NF];
  std::vector<const SingleDataField*> fields;
  fields.reserve(NF);
  for (int i = 0; i < NF; i++) {
    isNum[i] = vp_nondet_bool();
    const DataType* t = isNum[i] ? static_cast<const DataType*>(&numType) : static_cast<const DataType*>(&strType);
    fields.push_back(new SingleDataField(std::string(1, names[i]), noAttrs, t, pt_slaveData, 1));
  }
  // The DataFieldSet constructor builds a std::map<string,string> of the field names (uniqueness check), which is beyond
  // this encoding; hasField only reads m_fields, so the object is built around that member alone (stated in level_note)
  DataFieldSet* setp = static_cast<DataFieldSet*>(operator new(sizeof(DataFieldSet)));
  new (&setp->m_fields) std::vector<const SingleDataField*>(fields);
  DataFieldSet& set = *setp;
  // query: no name, or one of "a", "b", "c"; numeric or string kind
  uint8_t q = vp_nondet_u8() % 4;
  bool wantNum = vp_nondet_bool();
  const char* qname = q == 0 ? nullptr : q == 1 ? "a" : q == 2 ? "b" : "c";
  bool ref = false;
  for (int i = 0; i < NF; i++) {
    bool nameOk = q == 0 || names[i] == (q == 1 ? 'a' : q == 2 ? 'b' : 'c');
    if (nameOk && isNum[i] == wantNum) ref = true;
  }
  bool got = set.DataFieldSet::hasField(qname, wantNum);
  vp_assert("set-has-field-iff-some-field-of-that-name-and-kind-exists", got == ref);
  // single field
  bool one = fields[0]->hasField(qname, wantNum);
  bool refOne = (q == 0 || names[0] == (q == 1 ? 'a' : q == 2 ? 'b' : 'c')) && isNum[0] == wantNum;
  vp_assert("single-field-matches-iff-name-and-kind-match", one == refOne);
  if (ref) vp_cover("field-found");
  if (!ref && q != 0) vp_cover("named-field-missing");
  vp_observe("got", got);
}
