// C17 -- poll scheduling kernels on the real Message::isLessPollWeight / setPollPriority and MessageMap::getNextPoll /
// addPollMessage (message.cpp), with the real std::priority_queue header code and the file-static g_lastPollOrder.
// Message and MessageMap objects are constructed partially (only the members the poll code touches): the full objects sit
// on std::map<string,...> members whose construction is beyond this encoding (DESIGN 8.2) and play no role in scheduling.
//   H_ORDER   : isLessPollWeight is a strict weak order (what std::priority_queue requires), and is the documented order
//   H_NEXT    : one getNextPoll from every heap-ordered queue of M messages: selects a minimum of (virtual time, priority
//               number, last poll time), advances its virtual time by exactly its priority, g_lastPollOrder = max(old, its
//               time), others untouched, queue = same set once each and heap-ordered again, scheduling window invariant
//               kept, and the waiting rank of every other message strictly decreases (=> bounded waiting, frequency ~ 1/p)
//   H_SETPRIO : setPollPriority never schedules a message before the current virtual time + priority (no overtaking)
//   H_ADD     : addPollMessage(front/back) of a new message keeps the queue a duplicate-free heap
#include "vp.h"
#include <time.h>
#include "lib/utils/log.h"
namespace ebusd {
bool needsLog(const LogFacility, const LogLevel) { return false; }
void logWrite(const LogFacility, const LogLevel, const char*, ...) {}
void logWrite(const char*, const LogLevel, const char*, ...) {}
}
static uint64_t env_now = 1000000;
extern "C" time_t time(time_t* t) __THROW {
  env_now += vp_nondet_u8();   // arbitrary non-decreasing clock: several polls within one second included
  if (t) *t = static_cast<time_t>(env_now);
  return static_cast<time_t>(env_now);
}
#include "lib/ebus/message.cpp"
#include <new>
using namespace ebusd;
#ifndef M
#define M 3
#endif
struct Ref { uint32_t order; uint32_t prio; int64_t t; };
// documented order: the message to poll next has the smallest virtual time, then the smallest priority number, then the
// oldest last poll time; "a is less" in the queue's sense = a is to be polled later than b
static bool refLess(const Ref& a, const Ref& b) {
  if (a.order != b.order) return a.order > b.order;
  if (a.prio != b.prio) return a.prio > b.prio;
  return a.t > b.t;
}
static Message* mkMessage(Ref* r, uint32_t g) {
  Message* m = static_cast<Message*>(operator new(sizeof(Message)));
  r->prio = 1 + vp_nondet_u8() % 9;
  uint32_t off = vp_nondet_u8();
  vp_assume(off <= 40);
  // window: virtual times from 30 behind to prio ahead of the last polled one (ahead-limit = scheduling window invariant)
  r->order = g - 30 + off;
  vp_assume(r->order <= g + r->prio);
  r->t = static_cast<int64_t>(vp_nondet_u32() % 2000000);
  m->m_pollPriority = r->prio;
  m->m_pollOrder = r->order;
  m->m_lastPollTime = static_cast<time_t>(r->t);
  const_cast<bool&>(m->m_isPassive) = false;
  m->m_isScanMessage = false;
  const_cast<symbol_t&>(m->m_dstAddress) = 0x08;
  m->m_usedByCondition = false;
  m->m_createTime = 0;
  return m;
}
static int64_t cdiv(int64_t a, int64_t b) { return (a + b - 1) / b; }

extern "C" void vp_main() {
  uint32_t g = 1000 + vp_nondet_u16();
  g_lastPollOrder = g;
#ifdef H_ORDER
  Ref r[3]; Message* m[3];
  for (int i = 0; i < 3; i++) {
    m[i] = mkMessage(&r[i], g);
    // full-width fields for the order itself
    r[i].order = vp_nondet_u32(); r[i].prio = vp_nondet_u8(); r[i].t = static_cast<int64_t>(vp_nondet_u64() >> 1);
    m[i]->m_pollOrder = r[i].order; m[i]->m_pollPriority = r[i].prio; m[i]->m_lastPollTime = static_cast<time_t>(r[i].t);
  }
  bool ab = m[0]->isLessPollWeight(m[1]), ba = m[1]->isLessPollWeight(m[0]), bc = m[1]->isLessPollWeight(m[2]), ac = m[0]->isLessPollWeight(m[2]);
  bool cb = m[2]->isLessPollWeight(m[1]), ca = m[2]->isLessPollWeight(m[0]);
  vp_assert("order-is-the-documented-one", ab == refLess(r[0], r[1]) && bc == refLess(r[1], r[2]));
  vp_assert("irreflexive", !m[0]->isLessPollWeight(m[0]));
  vp_assert("asymmetric", !(ab && ba));
  vp_assert("transitive", !(ab && bc) || ac);
  vp_assert("incomparability-is-transitive", !(!ab && !ba && !bc && !cb) || (!ac && !ca));
  if (ab && bc) vp_cover("three-messages-strictly-ordered");
#endif
#if defined(H_NEXT) || defined(H_ADD)
  MessageMap& mm = *static_cast<MessageMap*>(operator new(sizeof(MessageMap)));
  new (&mm.m_pollMessages) MessagePriorityQueue();
  new (&mm.m_mutex) Mutex();
  Ref r[M + 1]; Message* m[M + 1];
  mm.m_pollMessages.c.reserve(M + 2);
  for (int i = 0; i < M; i++) { m[i] = mkMessage(&r[i], g); mm.m_pollMessages.c.push_back(m[i]); }
  // representation invariant of std::priority_queue: the vector is a heap (parent not less than its children)
  for (int i = 1; i < M; i++) vp_assume(!refLess(r[(i - 1) / 2], r[i]));
#endif
#ifdef H_NEXT
  int64_t rankBefore[M];
  for (int i = 0; i < M; i++) {
    rankBefore[i] = 0;
    for (int j = 0; j < M; j++) if (j != i) {
      int64_t d = static_cast<int64_t>(r[i].order) - static_cast<int64_t>(r[j].order) + 1;
      rankBefore[i] += d > 0 ? cdiv(d, r[j].prio) : 0;
    }
  }
  uint64_t before = env_now;
  Message* ret = mm.getNextPoll();
  vp_assert("a-message-is-selected", ret != nullptr);
  int s = -1;
  for (int i = 0; i < M; i++) if (ret == m[i]) s = i;
  vp_assert("selected-message-is-one-of-the-queued", s >= 0);
  if (s >= 0) {
    bool isMin = true;
    for (int j = 0; j < M; j++) if (j != s && refLess(r[s], r[j])) isMin = false;
    vp_assert("selected-message-is-due-first (smallest virtual time, then priority number, then oldest)", isMin);
    vp_assert("virtual-time-advances-by-exactly-the-priority", ret->m_pollOrder == r[s].order + r[s].prio && ret->m_pollPriority == r[s].prio);
    vp_assert("last-polled-virtual-time-is-the-maximum", g_lastPollOrder == (r[s].order > g ? r[s].order : g));
    vp_assert("last-poll-time-is-now", static_cast<uint64_t>(ret->m_lastPollTime) >= before && static_cast<uint64_t>(ret->m_lastPollTime) == env_now);
    bool others = true, window = true;
    for (int j = 0; j < M; j++) {
      if (j != s && (m[j]->m_pollOrder != r[j].order || m[j]->m_pollPriority != r[j].prio || m[j]->m_lastPollTime != static_cast<time_t>(r[j].t))) others = false;
      if (m[j]->m_pollOrder > g_lastPollOrder + m[j]->m_pollPriority) window = false;
    }
    vp_assert("other-messages-untouched", others);
    vp_assert("scheduling-window-invariant-kept (no message further ahead than one period)", window);
    // queue content: the same messages, each exactly once, heap-ordered again
    vp_assert("queue-size-unchanged", mm.m_pollMessages.c.size() == M);
    bool once = true;
    for (int i = 0; i < M; i++) {
      int n = 0;
      for (int k = 0; k < M; k++) if (static_cast<size_t>(k) < mm.m_pollMessages.c.size() && mm.m_pollMessages.c[k] == m[i]) n++;
      if (n != 1) once = false;
    }
    vp_assert("queue-holds-every-message-exactly-once", once);
    bool heap = true;
    for (int k = 1; k < M; k++) if (static_cast<size_t>(k) < mm.m_pollMessages.c.size() && mm.m_pollMessages.c[(k - 1) / 2]->isLessPollWeight(mm.m_pollMessages.c[k])) heap = false;
    vp_assert("queue-is-heap-ordered-again", heap);
    // ranking function: the number of selections other messages can still get before message i is due
    for (int i = 0; i < M; i++) if (i != s) {
      int64_t rank = 0;
      for (int j = 0; j < M; j++) if (j != i) {
        int64_t d = static_cast<int64_t>(m[i]->m_pollOrder) - static_cast<int64_t>(m[j]->m_pollOrder) + 1;
        rank += d > 0 ? cdiv(d, static_cast<int64_t>(m[j]->m_pollPriority)) : 0;
      }
      vp_assert("waiting-rank-of-every-other-message-strictly-decreases (bounded waiting)", rank < rankBefore[i] && rankBefore[i] <= 40 * M);
    }
#if M >= 2
    if (r[0].order == r[1].order && r[0].prio == r[1].prio) vp_cover("tie-broken-by-last-poll-time");
#endif
    vp_cover("message-selected");
  }
#endif
#ifdef H_SETPRIO
  Ref r0; Message* m0 = mkMessage(&r0, g);
  r0.prio = vp_nondet_u8() % 10;  // 0 = not polled so far
  m0->m_pollPriority = r0.prio;
  m0->m_usedByCondition = vp_nondet_bool();
  const_cast<bool&>(m0->m_isPassive) = vp_nondet_bool(); m0->m_isScanMessage = vp_nondet_bool();
  const_cast<symbol_t&>(m0->m_dstAddress) = vp_nondet_bool() ? 0x08 : SYN;
  uint8_t np = vp_nondet_u8() % 12;
  bool ret = m0->setPollPriority(np);
  bool refuse = np == r0.prio || m0->m_isPassive || m0->m_isScanMessage || m0->m_dstAddress == SYN;
  if (refuse) {
    vp_assert("refused-change-leaves-the-message-untouched", !ret && m0->m_pollPriority == r0.prio && m0->m_pollOrder == r0.order);
  } else {
    uint32_t use = np;
    if (m0->m_usedByCondition && (np == 0 || np > POLL_PRIORITY_CONDITION)) use = POLL_PRIORITY_CONDITION;
    vp_assert("priority-set (a message used by a condition keeps at least the condition priority)", m0->m_pollPriority == use);
    vp_assert("returns-true-iff-newly-polled", ret == (r0.prio == 0 && use > 0));
    bool newly = r0.prio == 0 && use > 0;
    uint32_t expect = (newly || r0.order > g + use) ? g + use : r0.order;
    vp_assert("no-overtaking: virtual time is now+priority when newly polled or when it was further ahead, else unchanged", m0->m_pollOrder == expect);
    vp_assert("scheduling-window-invariant-kept", m0->m_pollOrder <= g_lastPollOrder + m0->m_pollPriority);
    vp_assert("virtual-clock-untouched", g_lastPollOrder == g);
    if (newly) vp_cover("newly-polled-message");
  }
#endif
#ifdef H_ADD
  m[M] = mkMessage(&r[M], g);
  bool front = vp_nondet_bool();
  mm.addPollMessage(front, m[M]);
  vp_assert("queue-grew-by-one", mm.m_pollMessages.c.size() == M + 1);
  vp_assert("front-insertion-marks-the-message-oldest", m[M]->m_lastPollTime == (front ? 0 : static_cast<time_t>(M)));
  bool once = true;
  for (int i = 0; i <= M; i++) {
    int n = 0;
    for (int k = 0; k <= M; k++) if (static_cast<size_t>(k) < mm.m_pollMessages.c.size() && mm.m_pollMessages.c[k] == m[i]) n++;
    if (n != 1) once = false;
  }
  vp_assert("queue-holds-every-message-exactly-once", once);
  bool heap = true;
  for (int k = 1; k <= M; k++) if (static_cast<size_t>(k) < mm.m_pollMessages.c.size() && mm.m_pollMessages.c[(k - 1) / 2]->isLessPollWeight(mm.m_pollMessages.c[k])) heap = false;
  vp_assert("queue-is-heap-ordered", heap);
  vp_assert("virtual-times-untouched", m[M]->m_pollOrder == r[M].order && g_lastPollOrder == g);
  vp_cover("message-added");
#endif
  vp_observe("g", g_lastPollOrder);
}
