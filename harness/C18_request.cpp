// C18 -- client request parsing kernels: RequestImpl::split (TCP command line) and RequestImpl::add (HTTP URI decoding).
// DESIGN.md section 4/C18.
#include "vp.h"
#include "lib/utils/log.h"
namespace ebusd {
bool needsLog(const LogFacility, const LogLevel) { return false; }
void logWrite(const LogFacility, const LogLevel, const char*, ...) {}
void logWrite(const char*, const LogLevel, const char*, ...) {}
}
#include "ebusd/request.cpp"
using namespace ebusd;
#ifndef L
#define L 5
#endif

#if defined(H_SPLIT)
// reference tokenizer written from the statement: a token starting with a quote character extends to the token ending
// with that quote; repeated blanks outside quotes separate once
static const char ALPHA[5] = {'a', 'b', ' ', '"', '\''};
extern "C" void vp_main() {
  char line[L + 1];
  for (int i = 0; i < L; i++) { uint8_t c = vp_nondet_u8(); line[i] = ALPHA[c % 5]; }  // no assume inside the loop: keeps symex guards simple
  line[L] = 0;
  // reference, written CBMC-friendly: fixed-bound loops only, no data-dependent loop exits (DESIGN 2.4: monitors loop-free)
  char tok[L + 1][L + 1]; uint8_t tlen[L + 1]; uint8_t nt = 0;
  for (int t = 0; t <= L; t++) tlen[t] = 0;
  int closeAt[L];
  for (int i = 0; i < L; i++) {
    int p = -1;
    for (int k = L - 1; k > i; k--) if (line[k] == line[i] && (k + 1 == L || line[k + 1] == ' ')) p = k;  // first such k
    closeAt[i] = p;
  }
  bool unterminated = false;
  uint8_t mode = 0;  // 0 separator, 1 plain token, 2 quoted token
  int end = -1;
  for (int i = 0; i < L; i++) {
    char c = line[i];
    if (mode == 0) {
      if (c != ' ') {
        nt++;
        if (c == '"' || c == '\'') { mode = 2; end = closeAt[i]; if (end < 0) unterminated = true; }
        else { mode = 1; tok[nt - 1][tlen[nt - 1]++] = c; }
      }
    } else if (mode == 1) {
      if (c == ' ') mode = 0; else tok[nt - 1][tlen[nt - 1]++] = c;
    } else {
      if (i == end) mode = 0; else tok[nt - 1][tlen[nt - 1]++] = c;
    }
  }
  vp_assume(!unterminated);  // behaviour for an unterminated quote is not specified
  RequestImpl req(false);
  req.m_request = std::string(line, L);
  std::vector<std::string> args;
  args.reserve(L + 1);
  req.split(&args);
  vp_assert("split-yields-the-arguments-the-client-wrote-count", args.size() == nt);
  bool same = args.size() == nt;
  for (uint8_t t = 0; t <= L; t++) {
    if (t < nt && t < args.size()) {
      if (args[t].size() != tlen[t]) same = false;
      for (uint8_t k = 0; k < L; k++) if (k < tlen[t] && k < args[t].size() && args[t][k] != tok[t][k]) same = false;
    }
  }
  vp_assert("split-yields-the-arguments-the-client-wrote", same);
  if (nt >= 2) vp_cover("two-or-more-arguments");
  if (nt == 1 && tlen[0] == L - 2 && (line[0] == '"' || line[0] == '\'')) vp_cover("one-quoted-argument-spanning-the-line");
  vp_observe("n", args.size());
}
#elif defined(H_HTTP)
static const char ALPHA[9] = {'%', '2', '5', '4', '1', 'e', '/', '.', 'a'};
static int hexv(char c) { return c >= '0' && c <= '9' ? c - '0' : c >= 'a' && c <= 'f' ? c - 'a' + 10 : -1; }
extern "C" void vp_main() {
  char uri[L + 1];
  for (int i = 0; i < L; i++) { uint8_t c = vp_nondet_u8(); uri[i] = ALPHA[c % 9]; }
  uri[L] = 0;
  // reference: decode every %hh exactly once, left to right; malformed escapes are outside the statement
  char ref[L + 1]; uint8_t rn = 0; bool malformed = false, hadEscape = false, decodedPercent = false;
  uint8_t skip = 0;
  for (int i = 0; i < L; i++) {
    if (skip) { skip--; }
    else if (uri[i] == '%') {
      int a = (i + 1 < L) ? hexv(uri[i + 1]) : -1, b = (i + 2 < L) ? hexv(uri[i + 2]) : -1;
      if (a < 0 || b < 0) malformed = true;
      else {
        ref[rn++] = static_cast<char>((a << 4) | b);
        if (((a << 4) | b) == '%') decodedPercent = true;
        hadEscape = true;
        skip = 2;
      }
    } else ref[rn++] = uri[i];
  }
  vp_assume(!malformed);
  std::string line = std::string("GET ") + std::string(uri, L) + " HTTP/1.1\n\n";
  RequestImpl req(true);
  bool complete = req.add(line.c_str());
  vp_assert("http-request-complete", complete);
  const std::string& got = req.m_request;
  bool same = got.size() == static_cast<size_t>(4 + rn) && got[0] == 'G' && got[1] == 'E' && got[2] == 'T' && got[3] == ' ';
  for (uint8_t k = 0; k < L; k++) if (k < rn && 4 + k < got.size() && got[4 + k] != ref[k]) same = false;
  vp_assert("every-percent-escape-decoded-exactly-once", same);
  if (hadEscape) vp_cover("uri-with-escape");
  if (decodedPercent) vp_cover("escape-decoding-to-percent-sign");
  vp_observe("len", got.size());
}
#else
#error "select a harness"
#endif
