// C05 -- DAY type (days since 01.01.1900, 2 bytes): real DateTimeDataType::readSymbols against a civil-calendar reference
// (integer days-from-civil algorithm, independent of the MJD/float formula ebusd uses). DESIGN.md section 4/C05 "c05_date".
#include "vp.h"
#include <sstream>
#include "lib/utils/log.h"
namespace ebusd {
bool needsLog(const LogFacility, const LogLevel) { return false; }
void logWrite(const LogFacility, const LogLevel, const char*, ...) {}
void logWrite(const char*, const LogLevel, const char*, ...) {}
}
#include "lib/ebus/datatype.h"
using namespace ebusd;
// civil date from day count since 1970-01-01 (H. Hinnant's algorithm, pure integer arithmetic)
static void civil(int64_t z, int* y, unsigned* m, unsigned* d) {
  z += 719468;
  int64_t era = (z >= 0 ? z : z - 146096) / 146097;
  unsigned doe = static_cast<unsigned>(z - era * 146097);
  unsigned yoe = (doe - doe / 1460 + doe / 36524 - doe / 146096) / 365;
  int64_t yy = static_cast<int64_t>(yoe) + era * 400;
  unsigned doy = doe - (365 * yoe + yoe / 4 - yoe / 100);
  unsigned mp = (5 * doy + 2) / 153;
  *d = doy - (153 * mp + 2) / 5 + 1;
  *m = mp < 10 ? mp + 3 : mp - 9;
  *y = static_cast<int>(yy + (*m <= 2));
}
extern "C" void vp_main() {
  static const DateTimeDataType t("DAY", 16, REZ, 0xff, true, false, 0);
  uint16_t n = vp_nondet_u16();
#ifdef RANGE_LO
  vp_assume(n >= (RANGE_LO) && n <= (RANGE_HI));
#endif
  uint8_t lo = n & 0xff, hi = n >> 8;
  vp_assume(!(lo == 0xff && hi == 0xff));          // ff ff is the replacement pattern (null)
  vp_assume(lo != 0xff);                           // a single ff low byte is a partial-null form, outside this harness
  SlaveSymbolString in;
  in.m_data.reserve(4);
  in.push_back(2); in.push_back(lo); in.push_back(hi);
  std::ostringstream out;
  result_t r = t.readSymbols(0, 2, in, OF_NONE, &out);
  vp_assert("day-count-decodes", r == RESULT_OK);
  int y; unsigned m, d;
  civil(static_cast<int64_t>(n) - 25567, &y, &m, &d);   // 1900-01-01 is day -25567 of the Unix epoch
  char exp[10];
  exp[0] = '0' + d / 10; exp[1] = '0' + d % 10; exp[2] = '.'; exp[3] = '0' + m / 10; exp[4] = '0' + m % 10; exp[5] = '.';
  exp[6] = '0' + (y / 1000) % 10; exp[7] = '0' + (y / 100) % 10; exp[8] = '0' + (y / 10) % 10; exp[9] = '0' + y % 10;
  std::string s = out.str();
  bool same = s.size() == 10;
  for (int i = 0; i < 10; i++) if (i < static_cast<int>(s.size()) && s[i] != exp[i]) same = false;
  vp_known("KF-C05-DAY1900", n < 59);
  vp_assert("day-count-is-the-calendar-date", same);
#ifdef RANGE_LO
  if (n == (RANGE_HI) - 1) vp_cover("last-days-of-the-range");
  if (n == (RANGE_LO) + 100) vp_cover("a-day-inside-the-range");
#endif
  vp_observe("len", s.size());
}
