// C13 -- availability follows the referenced value through any history: the real SimpleCondition::isTrue (verdict cache keyed
// by the referenced message's last change time) and CombinedCondition::isTrue, fed by the real Message::storeLastData(slave)
// (change tracking with second resolution), over U updates with arbitrary values at arbitrary non-decreasing clock readings
// (several updates within one second included) and an availability query after every update.
// The value test itself (checkValue -> decodeLastDataNumField -> DataFieldSet) is beyond this encoding (DESIGN 8.2); it is
// replaced by a harness condition class whose checkValue reads the stored data byte directly, so that "the condition's value
// list is satisfied by the most recently stored data" is decided by the same predicate on both sides and the subject is the
// history tracking. The Message is constructed partially (last-data members only).
#include "vp.h"
#include <time.h>
#include "lib/utils/log.h"
namespace ebusd {
bool needsLog(const LogFacility, const LogLevel) { return false; }
void logWrite(const LogFacility, const LogLevel, const char*, ...) {}
void logWrite(const char*, const LogLevel, const char*, ...) {}
}
static uint64_t env_now = 1000000;
extern "C" time_t time(time_t* t) __THROW {
  env_now += vp_nondet_u8() % 3;   // 0, 1 or 2 seconds later: same-second updates are the interesting region
  if (t) *t = static_cast<time_t>(env_now);
  return static_cast<time_t>(env_now);
}
#include "lib/ebus/message.h"
#include <new>
using namespace ebusd;
#ifndef U
#define U 2
#endif
static bool inRange(uint8_t v, uint8_t lo, uint8_t hi) { return lo <= v && v <= hi; }
class RangeCond : public SimpleCondition {
 public:
  RangeCond(bool hasValues, uint8_t lo, uint8_t hi) : SimpleCondition("c", "r", "", "", "m", SYN, "", hasValues), m_lo(lo), m_hi(hi) {}
  bool checkValue(const Message* message, const string&) override {
    const SlaveSymbolString& d = message->m_lastSlaveData;
    return d.size() >= 2 && inRange(d.data()[1], m_lo, m_hi);
  }
  uint8_t m_lo, m_hi;
};

extern "C" void vp_main() {
  Message* m = static_cast<Message*>(operator new(sizeof(Message)));
  new (&m->m_lastSlaveData) SlaveSymbolString();
  m->m_lastSlaveData.m_data.reserve(8);
  m->m_lastUpdateTime = 0;
  m->m_lastChangeTime = 0;
  bool hasValues = vp_nondet_bool();
  uint8_t lo = vp_nondet_u8(), hi = vp_nondet_u8();
  RangeCond& c = *new RangeCond(hasValues, lo, hi);
  c.m_message = m;
#ifdef COMBINED
  uint8_t lo2 = vp_nondet_u8(), hi2 = vp_nondet_u8();
  RangeCond& c2 = *new RangeCond(true, lo2, hi2);
  c2.m_message = m;
  CombinedCondition& cc = *new CombinedCondition();
  cc.m_conditions.reserve(4);
  cc.m_conditions.push_back(&c);
  cc.m_conditions.push_back(&c2);
#define QUERY() cc.isTrue()
#define REF(seen, v) ((seen) && (!hasValues || inRange(v, lo, hi)) && inRange(v, lo2, hi2))
#else
#define QUERY() c.isTrue()
#define REF(seen, v) ((seen) && (!hasValues || inRange(v, lo, hi)))
#endif
  vp_assert("not-available-before-the-first-update", QUERY() == false);
  bool seen = false;
  uint8_t last = 0;
  uint64_t lastT = 0;
  bool sameSecondChange = false;
  for (int i = 0; i < U; i++) {
    uint8_t v = vp_nondet_u8();
    SlaveSymbolString d;
    d.m_data.reserve(8);
    d.push_back(1);
    d.push_back(v);
    m->Message::storeLastData(0, d);   // qualified: the partially constructed object has no vtable pointer
    if (seen && v != last && env_now == lastT) sameSecondChange = true;
    seen = true; last = v; lastT = env_now;
    vp_known("KF-C13-SAME-SECOND-STALE", sameSecondChange);
    bool verdict = QUERY();
    vp_assert("available-iff-the-most-recently-stored-value-satisfies-the-condition", verdict == REF(seen, last));
    vp_assert("verdict-is-stable-when-asked-again", QUERY() == verdict);
  }
  if (sameSecondChange) vp_cover("two-different-values-stored-within-one-second");
  vp_cover("history-complete");
  vp_observe("last", last);
}
