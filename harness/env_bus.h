// Shared bus environment for the protocol harnesses (C01, C02, C03, C04, C15, C20). DESIGN.md section 4
// "Shared bus environment". Everything here is compiled identically into the symbolic and the native build.
#ifndef ENV_BUS_H
#define ENV_BUS_H
#include "vp.h"
#include <time.h>
// real code under test, included so private state is reachable with -fno-access-control
#include "lib/ebus/protocol.cpp"
#include "lib/ebus/protocol_direct.cpp"

namespace ebusd {
// ---- logging: never the subject (DESIGN 2.3 log) ----
bool needsLog(const LogFacility, const LogLevel) { return false; }
void logWrite(const LogFacility, const LogLevel, const char*, ...) {}
void logWrite(const char*, const LogLevel, const char*, ...) {}

// raw dump/log files are a side channel outside every claim
void RotateFile::write(const unsigned char*, size_t, bool, bool) {}

// ---- clock: arbitrary non-decreasing instants drawn from the nondet tape ----
static uint64_t env_now_ms = 1000000;
static void env_advance() {
  uint16_t d = vp_nondet_u16();  // up to ~65 s per reading, so "same second" and "seconds later" are both reachable
  env_now_ms += d;
}
void clockGettime(struct timespec* t) {
  env_advance();
  t->tv_sec = static_cast<time_t>(env_now_ms / 1000);
  t->tv_nsec = static_cast<long>((env_now_ms % 1000) * 1000000);
}
uint64_t clockGetMillis() { env_advance(); return env_now_ms; }
}  // namespace ebusd
extern "C" time_t time(time_t* t) __THROW {
  ebusd::env_advance();
  time_t v = static_cast<time_t>(ebusd::env_now_ms / 1000);
  if (t) *t = v;
  return v;
}

namespace ebusd {

#ifndef ENV_MAXEV
#define ENV_MAXEV 64
#endif
// one entry per transport-level event, in order
enum EvKind : uint8_t { EV_READ = 1, EV_WRITE = 2, EV_TIMEOUT = 3, EV_RDERR = 4, EV_WRERR = 5 };
struct Ev { uint8_t kind; uint8_t byte; uint8_t lone; };  // lone: the byte was the only one buffered when handed out

/** Transport whose reads come from the environment: every read hands out what is buffered, and when nothing is
 * buffered the environment decides: timeout, device error, or a fresh chunk of 1..ENV_MAXCHUNK arbitrary bytes. */
#ifndef ENV_MAXCHUNK
#define ENV_MAXCHUNK 2
#endif
// monitor hooks, defined by each harness (plain functions: no function pointers, so symex needs no dispatch)
void env_on_read(uint8_t byte, bool lone);
void env_on_write(uint8_t byte);
class TapeTransport : public Transport {
 public:
  TapeTransport() : Transport("tape", 0), m_len(0), m_nev(0), m_nfault(0), m_valid(true), m_allowErrors(true), m_allowWriteErrors(true),
    m_bytesLeft(255), m_forced(false), m_noTimeout(false), m_forcedByte(0), m_nrderr(0), m_lastTimeout(0) {}
  string getTransportInfo() const override { return "tape"; }
  result_t open() override { return RESULT_OK; }
  void close() override { m_valid = false; }
  bool isValid() override { return m_valid; }
  result_t openInternal() override { return RESULT_OK; }
  result_t write(const uint8_t* data, size_t len) override {
    bool fail = m_allowWriteErrors && vp_nondet_bool();
    for (size_t i = 0; i < len; i++) {
      log(fail ? EV_WRERR : EV_WRITE, data[i], 0);
      if (!fail) env_on_write(data[i]);
    }
    return fail ? RESULT_ERR_SEND : RESULT_OK;
  }
  result_t read(unsigned int timeout, const uint8_t** data, size_t* len) override {
    if (m_len == 0) {
      uint8_t choice = vp_nondet_u8();
      if (choice == 1 && m_allowErrors && m_bytesLeft == 0) { log(EV_RDERR, 0, 0); return RESULT_ERR_DEVICE; }
      if ((choice == 0 && !m_noTimeout) || m_bytesLeft == 0) { env_now_ms += timeout; if (m_lastTimeout == 0) m_lastTimeout = timeout; log(EV_TIMEOUT, 0, 0); return RESULT_ERR_TIMEOUT; }  // a timed-out read took 'timeout' ms
      if (choice == 1 && m_allowErrors) { log(EV_RDERR, 0, 0); return RESULT_ERR_DEVICE; }
      uint8_t n = static_cast<uint8_t>(1 + (choice >> 2) % ENV_MAXCHUNK);
      if (n > m_bytesLeft) n = m_bytesLeft;
      for (uint8_t i = 0; i < n; i++) m_buf[i] = nextByte();
      m_len = n;
      m_bytesLeft = static_cast<uint8_t>(m_bytesLeft - n);
    }
    *data = m_buf;
    *len = m_len;
    return RESULT_OK;
  }
  void readConsumed(size_t n) override {
    if (n > m_len) n = m_len;
    for (size_t i = 0; i < n; i++) {
      log(EV_READ, m_buf[i], (m_len - i) == 1 ? 1 : 0);
      env_on_read(m_buf[i], (m_len - i) == 1);
    }
    for (size_t i = n; i < m_len; i++) m_buf[i - n] = m_buf[i];
    m_len -= n;
  }
  virtual uint8_t nextByte() { if (m_forced) { m_forced = false; return m_forcedByte; } return vp_nondet_u8(); }
  void log(uint8_t kind, uint8_t byte, uint8_t lone) {
    if (kind == EV_TIMEOUT || kind == EV_RDERR) m_nfault++;
    if (kind == EV_RDERR) m_nrderr++;
#ifndef ENV_NOLOG
    if (m_nev < ENV_MAXEV) { m_ev[m_nev].kind = kind; m_ev[m_nev].byte = byte; m_ev[m_nev].lone = lone; }
#endif
    m_nev++;
  }
  uint8_t m_buf[ENV_MAXCHUNK];
  size_t m_len;
  Ev m_ev[ENV_MAXEV];
  unsigned m_nev;
  unsigned m_nfault;  // read timeouts/errors so far
  bool m_valid, m_allowErrors, m_allowWriteErrors;
  uint8_t m_bytesLeft;  // bound on the number of bytes the environment still delivers
  bool m_forced, m_noTimeout;  // harness-chosen next fresh byte / no timeouts (case splits of a step harness)
  uint8_t m_forcedByte;
  unsigned m_nrderr;  // read errors (not timeouts) so far
  unsigned m_lastTimeout;  // timeout argument of the first read that timed out since the harness reset it to 0
};

#ifndef ENV_MAXMSG
#define ENV_MAXMSG 4
#endif
#ifndef ENV_MAXLEN
#define ENV_MAXLEN 24
#endif
struct RecMsg { uint8_t dir; uint8_t mlen; uint8_t slen; uint8_t m[ENV_MAXLEN]; uint8_t s[ENV_MAXLEN]; };

/** records what the protocol handler reports */
class RecListener : public ProtocolListener {
 public:
  RecListener() : m_nmsg(0), m_nseen(0), m_lastState(ps_noSignal), m_lastResult(RESULT_OK), m_nstatus(0) {}
  void notifyProtocolStatus(ProtocolState state, result_t result) override { m_lastState = state; m_lastResult = result; m_nstatus++; }
  void notifyProtocolSeenAddress(symbol_t address) override { m_nseen++; }
  void notifyProtocolMessage(MessageDirection direction, const MasterSymbolString& master, const SlaveSymbolString& slave) override {
    if (m_nmsg < ENV_MAXMSG) {
      RecMsg& r = m_msg[m_nmsg];
      r.dir = static_cast<uint8_t>(direction);
      r.mlen = static_cast<uint8_t>(master.size() < ENV_MAXLEN ? master.size() : ENV_MAXLEN);
      r.slen = static_cast<uint8_t>(slave.size() < ENV_MAXLEN ? slave.size() : ENV_MAXLEN);
      for (uint8_t i = 0; i < r.mlen; i++) r.m[i] = master.data()[i];
      for (uint8_t i = 0; i < r.slen; i++) r.s[i] = slave.data()[i];
    }
    m_nmsg++;
  }
  RecMsg m_msg[ENV_MAXMSG];
  unsigned m_nmsg, m_nseen;
  ProtocolState m_lastState;
  result_t m_lastResult;
  unsigned m_nstatus;
};

/** arbitrary handler configuration (DESIGN: own address in the 25 masters, readOnly, answer, lockCount, generateSyn ...) */
static ebus_protocol_config_t env_config() {
  ebus_protocol_config_t c;
  c.device = "tape";
  c.noDeviceCheck = true;
  c.readOnly = vp_nondet_bool();
  c.extraLatency = 0;
  static const uint8_t nib[5] = {0x0, 0x1, 0x3, 0x7, 0xF};
  uint8_t a = vp_nondet_u8(), b = vp_nondet_u8();
  vp_assume(a < 5 && b < 5);
  c.ownAddress = static_cast<symbol_t>((nib[a] << 4) | nib[b]);
  c.answer = vp_nondet_bool();
  c.busLostRetries = vp_nondet_u8() % 3;
  c.failedSendRetries = 1;
  c.busAcquireTimeout = 10;
  c.slaveRecvTimeout = vp_nondet_bool() ? 15 : 60;
  uint8_t lc = vp_nondet_u8() % 4;
  c.lockCount = lc == 0 ? 0 : lc == 1 ? 1 : lc == 2 ? 3 : 5;
#ifdef ENV_GENSYN
  c.generateSyn = ENV_GENSYN;   // job parameter: fixing it lets symbolic execution prune the AUTO-SYN path (or not)
#else
  c.generateSyn = vp_nondet_bool();
#endif
  c.initialSend = false;
  return c;
}

/** one iteration of DirectProtocolHandler::run()'s loop body, flattened so that each call performs at most one
 * handleSend and exactly one handleReceive (run() itself = thread start + 5 s reopen wait is not encoded) */
struct Stepper {
  DirectProtocolHandler* h;
  bool cont;
  result_t result;
  unsigned int recvTimeout;
  symbol_t sentSymbol;
  struct timespec sentTime;
  bool sent;
  explicit Stepper(DirectProtocolHandler* hh) : h(hh), cont(false), result(RESULT_OK), recvTimeout(0), sentSymbol(ESC), sent(false) {
    sentTime.tv_sec = 0; sentTime.tv_nsec = 0;
  }
  void step() {
    if (!cont) {
      recvTimeout = 0;
      sentSymbol = ESC;
      result = h->handleSend(&recvTimeout, &sentSymbol, &sentTime);
      sent = result == RESULT_CONTINUE;
    }
    if (result >= RESULT_OK) {
      result = h->handleReceive(recvTimeout, sent, sentSymbol, &sentTime);
    }
    recvTimeout = 0;
    sent = false;
    cont = result == RESULT_CONTINUE;
  }
};

}  // namespace ebusd
#endif
