// C14 (plain byte transport clause) / C20 -- real FileTransport::read / readConsumed on a concrete subclass, with the
// system calls ::read / ppoll / close answered by the solver. S shape: ONE operation from an ARBITRARY buffer state
// (0..32 buffered bytes of arbitrary content), so by induction the claim covers every chunking and consumption history:
// bytes are handed out unchanged and in order; a reported "buffer overflow" discards exactly what was buffered; the
// 32-byte buffer is never indexed out of bounds (CBMC bounds checks on the real malloc'ed buffer).
#include "vp.h"
#include <poll.h>
#include <unistd.h>
#include "lib/utils/log.h"
namespace ebusd {
bool needsLog(const LogFacility, const LogLevel) { return false; }
void logWrite(const LogFacility, const LogLevel, const char*, ...) {}
void logWrite(const char*, const LogLevel, const char*, ...) {}
}
#include "lib/ebus/transport.h"
using namespace ebusd;

// ---- system call environment (same code in the symbolic and the native build: the definitions below replace libc's) ----
static int g_pollRet; static short g_pollRevents;
static long g_readRet; static uint8_t g_readBytes[32];
static unsigned g_closed = 0, g_readCalls = 0; static size_t g_readCount = 0;
extern "C" int ppoll(struct pollfd* fds, nfds_t, const struct timespec*, const sigset_t*) { fds[0].revents = g_pollRevents; return g_pollRet; }
extern "C" ssize_t read(int, void* buf, size_t count) {
  g_readCalls++; g_readCount = count;
  if (g_readRet <= 0) return g_readRet;
  size_t n = static_cast<size_t>(g_readRet) < count ? static_cast<size_t>(g_readRet) : count;
  for (size_t i = 0; i < 32; i++) if (i < n) static_cast<uint8_t*>(buf)[i] = g_readBytes[i];
  return static_cast<ssize_t>(n);
}
extern "C" int close(int) { g_closed++; return 0; }
extern "C" ssize_t write(int, const void*, size_t n) { return static_cast<ssize_t>(n); }

class TestTransport : public FileTransport {
 public:
  TestTransport() : FileTransport("test", 0, false) {}
  string getTransportInfo() const override { return "test"; }
  result_t openInternal() override { m_fd = 3; return RESULT_OK; }
  void checkDevice() override {}
};
class Lst : public TransportListener {
 public:
  Lst() : overflow(0), status(0) {}
  result_t notifyTransportStatus(bool) override { status++; return RESULT_OK; }
  void notifyTransportMessage(bool, const char*) override { overflow++; }
  unsigned overflow, status;
};

extern "C" void vp_main() {
  static TestTransport t;
  static Lst lst;
  t.setListener(&lst);
  t.m_fd = 3;
  // arbitrary pre-state
  uint8_t n0 = vp_nondet_u8();
  vp_assume(n0 <= 32);
  uint8_t c[32];
  for (int i = 0; i < 32; i++) { c[i] = vp_nondet_u8(); t.m_buffer[i] = c[i]; }
  t.m_bufLen = n0;
  g_pollRet = static_cast<int>(vp_nondet_u8() % 3) - 1;                 // -1, 0, 1
  g_pollRevents = vp_nondet_bool() ? POLLHUP : POLLIN;
  g_readRet = static_cast<long>(vp_nondet_u8() % 34) - 1;               // -1 .. 32
  for (int i = 0; i < 32; i++) g_readBytes[i] = vp_nondet_u8();
  uint8_t op = vp_nondet_u8() % 3;
  if (op == 0) {
    uint8_t k = vp_nondet_u8();
    t.readConsumed(k);
    uint8_t want = k >= n0 ? 0 : static_cast<uint8_t>(n0 - k);
    bool ok = t.m_bufLen == want;
    for (int i = 0; i < 32; i++) if (i < want && t.m_buffer[i] != c[i + k]) ok = false;
    vp_assert("consume-drops-exactly-the-first-k-bytes", ok);
    vp_cover("consumed");
  } else {
    unsigned timeout = op == 1 ? 0 : 10;
    const uint8_t* data = nullptr; size_t len = 999;
    result_t r = t.read(timeout, &data, &len);
    bool pollErr = g_pollRet == -1 || (g_pollRet >= 0 && g_pollRevents == POLLHUP);
    if (timeout == 0) {
      vp_assert("peek-returns-what-is-buffered", n0 == 0 ? r == RESULT_ERR_TIMEOUT : (r == RESULT_OK && data == t.m_buffer && len == n0));
      vp_assert("peek-leaves-the-buffer-alone", t.m_bufLen == n0 && g_readCalls == 0);
    } else if (pollErr) {
      vp_assert("poll-error-closes-the-device", r == RESULT_ERR_DEVICE && t.m_fd == -1 && t.m_bufLen == 0);
    } else if (g_pollRet == 0) {
      vp_assert("timeout-leaves-the-buffer-alone", r == RESULT_ERR_TIMEOUT && t.m_bufLen == n0 && g_readCalls == 0);
    } else {
      bool overflow = n0 > 24;                                   // more than 3/4 of the buffer in use
      uint8_t kept = overflow ? 0 : n0;
      vp_assert("overflow-reported-iff-more-than-three-quarters-used", lst.overflow == (overflow ? 1u : 0u));
      vp_assert("read-asks-for-at-most-the-free-space", g_readCalls == 1 && g_readCount == static_cast<size_t>(32 - kept));
      if (g_readRet <= 0) {
        vp_assert("nothing-read-keeps-what-was-kept", r == RESULT_ERR_TIMEOUT && t.m_bufLen == kept);
      } else {
        size_t got = static_cast<size_t>(g_readRet) < static_cast<size_t>(32 - kept) ? static_cast<size_t>(g_readRet) : static_cast<size_t>(32 - kept);
        bool ok = r == RESULT_OK && data == t.m_buffer && len == kept + got && t.m_bufLen == kept + got;
        for (int i = 0; i < 32; i++) {
          if (i < kept && t.m_buffer[i] != c[i]) ok = false;                       // old bytes unchanged, in order
          if (i >= kept && i < static_cast<int>(kept + got) && t.m_buffer[i] != g_readBytes[i - kept]) ok = false;   // new bytes appended
        }
        vp_assert("bytes-are-appended-unchanged-and-in-order", ok);
        if (overflow) vp_cover("overflow-discards-the-buffered-bytes");
        else vp_cover("bytes-appended");
      }
      for (int i = 0; i < 32; i++) if (i < kept && t.m_buffer[i] != c[i]) vp_assert("kept-bytes-unchanged", false);
    }
  }
  vp_assert("buffer-length-invariant", t.m_bufLen <= 32);
  vp_observe("len", t.m_bufLen);
}
