// C08 -- a telegram is matched to the right message definition: the real MessageMap::find(master, ...) with the real
// Message::createKey (both overloads), Message::checkId and getFirstAvailable, on a map filled with D definitions whose fields
// (direction, passive/active, source, destination, PB, SB, ID bytes) are arbitrary; ID lengths are job parameters.
// Message and MessageMap objects are constructed partially (the members find touches); the vtable pointer of each Message is
// set by hand to the real vtable so that checkId/getIdLength/isAvailable dispatch for real. The definitions are entered the
// way MessageMap::add does it for the by-key index: m_messagesByKey[createKey(...)] and the two maximum ID lengths (add()
// itself needs the name index over std::string and is outside, DESIGN 8.2).
// Reference: linear scan with the documented matching rule; asserted: soundness (the result matches destination, PBSB, every
// ID byte, source restriction and requested direction) and longest match (if any definition matches, the result's ID is as
// long as the longest matching one).
#include "vp.h"
#include <time.h>
#include "lib/utils/log.h"
namespace ebusd {
bool needsLog(const LogFacility, const LogLevel) { return false; }
void logWrite(const LogFacility, const LogLevel, const char*, ...) {}
void logWrite(const char*, const LogLevel, const char*, ...) {}
}
extern "C" time_t time(time_t* t) __THROW {   // referenced by virtual members that the vtable keeps alive; not used by find
  static uint64_t now = 1000000;
  now += vp_nondet_u8();
  if (t) *t = static_cast<time_t>(now);
  return static_cast<time_t>(now);
}
#include "lib/ebus/message.h"
#include <new>
using namespace ebusd;
extern "C" void* _ZTVN5ebusd7MessageE[];
#ifndef D
#define D 2
#endif
#ifndef L0
#define L0 1
#endif
#ifndef L1
#define L1 2
#endif
#ifndef L2
#define L2 0
#endif
#ifndef NN
#define NN 3
#endif
static bool nibOk(uint8_t n) { return n == 0 || n == 1 || n == 3 || n == 7 || n == 15; }
static bool refMaster(uint8_t a) { return nibOk(a & 15) && nibOk(a >> 4); }
struct Def { bool isWrite, isPassive; uint8_t src, dst, pb, sb, idLen, id[8]; Message* m; };

extern "C" void vp_main() {
  MessageMap& mm = *static_cast<MessageMap*>(operator new(sizeof(MessageMap)));
  new (&mm.m_messagesByKey) std::map<uint64_t, std::vector<Message*> >();
  mm.m_scanMessage = nullptr;
  mm.m_maxIdLength = 0; mm.m_maxBroadcastIdLength = 0;
  static const uint8_t LEN[3] = {L0, L1, L2};
  Def def[D];
  for (int i = 0; i < D; i++) {
    Def& g = def[i];
    g.isWrite = vp_nondet_bool(); g.isPassive = vp_nondet_bool();
    g.src = vp_nondet_u8(); g.dst = vp_nondet_u8(); g.pb = vp_nondet_u8(); g.sb = vp_nondet_u8();
    g.idLen = LEN[i];
    for (int k = 0; k < 8; k++) g.id[k] = vp_nondet_u8();
    // what a loaded definition can look like: source SYN (any) or a master address (only meaningful for passive ones);
    // destination SYN (any) or a valid address
    vp_assume(g.src == SYN || refMaster(g.src));
    vp_assume(g.dst != ESC);
    vp_assume(g.isPassive || g.src == SYN);
    Message* m = static_cast<Message*>(operator new(sizeof(Message)));
    *reinterpret_cast<void***>(m) = &_ZTVN5ebusd7MessageE[2];
    vector<symbol_t>* id = new (const_cast<vector<symbol_t>*>(&m->m_id)) vector<symbol_t>();
    id->reserve(12);
    id->push_back(g.pb); id->push_back(g.sb);
    for (int k = 0; k < 8; k++) if (k < g.idLen) id->push_back(g.id[k]);
    const_cast<bool&>(m->m_isWrite) = g.isWrite;
    const_cast<bool&>(m->m_isPassive) = g.isPassive;
    const_cast<symbol_t&>(m->m_srcAddress) = g.src;
    const_cast<symbol_t&>(m->m_dstAddress) = g.dst;
    m->m_condition = nullptr;
    uint64_t key = Message::createKey(m->m_id, g.isWrite, g.isPassive, g.src, g.dst);
    const_cast<uint64_t&>(m->m_key) = key;
    g.m = m;
    mm.m_messagesByKey[key].push_back(m);
    if (g.dst == BROADCAST) { if (g.idLen > mm.m_maxBroadcastIdLength) mm.m_maxBroadcastIdLength = g.idLen; }
    if (g.idLen > mm.m_maxIdLength) mm.m_maxIdLength = g.idLen;
  }
  // the telegram
  MasterSymbolString t;
  t.m_data.reserve(5 + NN + 2);
  uint8_t tb[5 + NN];
  for (int k = 0; k < 5 + NN; k++) tb[k] = vp_nondet_u8();
  tb[4] = NN;
  vp_assume(refMaster(tb[0]) && tb[1] != SYN && tb[1] != ESC);
  for (int k = 0; k < 5 + NN; k++) t.push_back(tb[k]);
  bool anyDst = vp_nondet_bool(), withRead = vp_nondet_bool(), withWrite = vp_nondet_bool(), withPassive = vp_nondet_bool();
  vp_assume(!(anyDst && tb[2] == 0x07 && tb[3] == 0x04 && NN == 0));   // the scan message shortcut is not the subject
  Message* found = mm.MessageMap::find(t, anyDst, withRead, withWrite, withPassive, true);
  // ---- reference: linear scan ----
  bool matches[D]; int longest = -1;
  for (int i = 0; i < D; i++) {
    const Def& g = def[i];
    bool m = (anyDst ? g.dst == SYN : g.dst == tb[1]) && g.pb == tb[2] && g.sb == tb[3] && g.idLen <= NN;
    for (int k = 0; k < 8; k++) if (k < g.idLen && k < NN && g.id[k] != tb[5 + k]) m = false;
    if (g.isPassive) m = m && withPassive && (g.src == SYN || g.src == tb[0]);
    else m = m && (g.isWrite ? withWrite : withRead);
    matches[i] = m;
    if (m && g.idLen > longest) longest = g.idLen;
  }
  int fi = -1;
  for (int i = 0; i < D; i++) if (found == def[i].m) fi = i;
  vp_assert("result-is-one-of-the-loaded-definitions-or-none", found == nullptr || fi >= 0);
  if (fi >= 0) {
    vp_assert("returned-definition-matches-destination-command-id-source-and-direction", matches[fi]);
    vp_assert("returned-definition-has-the-longest-matching-id", def[fi].idLen == longest);
    vp_cover("definition-found");
  }
  if (found == nullptr) vp_assert("a-matching-definition-is-found", longest < 0);
#if D >= 2
  if (fi >= 0 && matches[0] && matches[1] && def[0].idLen != def[1].idLen) vp_cover("two-candidates-longest-wins");
#endif
  vp_observe("found", fi);
}
