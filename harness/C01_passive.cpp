// C01 -- passive reception reports exactly the valid telegrams (R shape: K steps from the real initial state).
// DESIGN.md section 4/C01. Real code: DirectProtocolHandler (protocol_direct.cpp, protocol.cpp) on the real
// PlainDevice (device_trans.cpp) over a TapeTransport whose every read result is chosen by the solver.
#include "env_bus.h"
// CRC step used by the reference: the real table step, justified by C11/crc_step (equal to bit-serial division for all
// 65536 inputs); -DREF_BITSERIAL switches to the bit-serial form itself
static uint8_t tableStep(uint8_t c, uint8_t v) { ebusd::SymbolString::updateCrc(v, &c); return c; }
#ifndef REF_BITSERIAL
#define REF_CRC_STEP(c, v) tableStep(c, v)
#endif
#include "ref_bus.h"
using namespace ebusd;
#ifndef K
#define K 10
#endif

static ref::Parser g_ref;
static unsigned g_faults = 0;
// bytes consumed from the transport during the current step (at most 2: the symbol and an AUTO-SYN echo); the
// reference is fed once per step from here instead of from inside the device loops (keeps the unwound formula small)
static uint8_t g_stepBytes[2];
static uint8_t g_nStep = 0;
namespace ebusd {
void env_on_read(uint8_t b, bool) { if (g_nStep < 2) g_stepBytes[g_nStep] = b; g_nStep++; }
void env_on_write(uint8_t) {}
}

extern "C" void vp_main() {
  ebus_protocol_config_t cfg = env_config();
  TapeTransport* tr = new TapeTransport();
  tr->m_allowWriteErrors = false;
  tr->m_bytesLeft = K;
  PlainDevice* dev = new PlainDevice(tr);
  static RecListener lst;
  // never destroyed: the destructor chain is exercised by the C04 harnesses; here it would only add dispatch fan-out
  DirectProtocolHandler& h = *new DirectProtocolHandler(cfg, dev, &lst);
  h.m_command.m_data.reserve(ENV_MAXLEN + 8);
  h.m_response.m_data.reserve(ENV_MAXLEN + 8);
  Stepper st(&h);
  for (int i = 0; i < K; i++) {
    unsigned faultsBefore = tr->m_nfault;
    unsigned repBefore = g_ref.nreports, msgBefore = lst.m_nmsg;
    g_nStep = 0;
    st.step();
    vp_assert("harness: at most two symbols consumed per step", g_nStep <= 2);
    bool rep1 = false;
    if (g_nStep >= 1) { g_ref.sym(g_stepBytes[0]); rep1 = g_ref.reported; }
    if (g_nStep >= 2) { g_ref.sym(g_stepBytes[1]); }
    // read faults reach the reference as "stream interrupted" (a fault ends the step: it is the last event of the step)
    if (tr->m_nfault != faultsBefore) g_ref.fault();
    vp_known("KF-C01-QQ-NONMASTER", g_ref.sawNonMasterQQ);
  vp_known("KF-C01-ZZ-SELF", g_ref.sawSelfZZ);
  vp_known("KF-C01-ESC-SYN-STALE-CRC", g_ref.escThenSyn);
    unsigned newRef = g_ref.nreports - repBefore, newMsg = lst.m_nmsg - msgBefore;
    vp_assert("reports-exactly-the-valid-telegrams-count", newRef == newMsg);
    if (newMsg == 1 && newRef == 1 && msgBefore < ENV_MAXMSG) {
      const RecMsg& r = lst.m_msg[msgBefore];
      vp_assert("reported-as-received-direction", r.dir == md_recv);
      bool same = r.mlen == g_ref.mlen && r.slen == g_ref.slen;
      for (uint8_t j = 0; j < ENV_MAXLEN; j++) {
        if (j < g_ref.mlen && j < r.mlen && r.m[j] != g_ref.m[j]) same = false;
        if (j < g_ref.slen && j < r.slen && r.s[j] != g_ref.s[j]) same = false;
      }
      vp_assert("reported-telegram-has-same-source-destination-command-and-data", same);
      if (g_ref.m[1] == 0xFE) vp_cover("bc-telegram-reported");
      else if (ref::is_master(g_ref.m[1])) vp_cover("mm-telegram-reported");
      else vp_cover("ms-telegram-reported");
    }
  }
  vp_observe("nmsg", lst.m_nmsg);
  vp_observe("nref", g_ref.nreports);
}
