// C07 (range-safe writes) and C12 (errno clause) -- kernel harness on the real NumberDataType::parseInput /
// checkValueRange, one type per job. DESIGN.md section 4/C07 "K c07_parse", C12 "c12_errno".
//
// libc contract: in the symbolic build strtol/strtoul/strtod are replaced by "whatever a conforming libc could
// return" for a text that denotes the scenario's mathematical value; in the native build the same scenario is turned
// into that text and parsed by the real glibc. Both builds draw the same nondet values in the same order.
#include "vp.h"
#include <errno.h>
#include <stdio.h>
#include <string.h>
#include <math.h>
#include "lib/utils/log.h"
namespace ebusd {
bool needsLog(const LogFacility, const LogLevel) { return false; }
void logWrite(const LogFacility, const LogLevel, const char*, ...) {}
void logWrite(const char*, const LogLevel, const char*, ...) {}
}
#include "lib/ebus/datatype.h"   // datatype.cpp is a separate unit so that its registry constructor can be skipped
using namespace ebusd;

// ---- scenario -----------------------------------------------------------------------------------------------------
struct Scenario {
  uint8_t kind;      // 0: the null text "-", 1: empty text, 2: a number
  bool neg;          // sign of the number (integer texts)
  uint64_t mag;      // magnitude of an integer text (|value| < 2^64), or beyond 64 bits when 'huge'
  bool huge;         // |value| >= 2^64: the libc saturates and sets ERANGE
  uint8_t suffix;    // 0: nothing follows the number, 1: garbage 'x', 2: ".5"
  bool lead;         // a blank precedes the number (strto* skip leading white space)
  double dval;       // value of a decimal text for types with a divisor
  int errno0;        // errno left behind by an earlier operation in this thread
};
static Scenario g_sc;
static Scenario drawScenario() {
  Scenario s;
  s.kind = vp_nondet_u8() % 3;
  s.neg = vp_nondet_bool();
  s.mag = vp_nondet_u64();
  s.huge = vp_nondet_bool();
  s.suffix = vp_nondet_u8() % 3;
  s.lead = vp_nondet_bool();
  s.dval = vp_nondet_double();
  s.errno0 = vp_nondet_bool() ? ERANGE : 0;
  // decimal texts denoting subnormal values are outside the scenario space: whether strtod flags them with ERANGE is
  // implementation-defined, so "the" libc outcome is not unique
  { uint64_t b; memcpy(&b, &s.dval, 8); uint64_t e = (b >> 52) & 0x7ff; vp_assume(e != 0 || (b << 1) == 0); }
  return s;
}

#ifdef VP_SYMBOLIC
static char* dummyEnd(const char* s) { const char* p = s; if (*p == ' ') p++; if (*p == '-') p++; return const_cast<char*>(p) + 1; }
// contract stubs: the text handed to them is the dummy "1<suffix>", the result is the scenario's value
extern "C" long strtol(const char* s, char** end, int) __THROW {
  if (g_sc.kind != 2) { if (end) *end = const_cast<char*>(s); return 0; }   // "-" holds no digits: no conversion
  if (end) *end = dummyEnd(s);
  if (g_sc.huge || (!g_sc.neg && g_sc.mag > 0x7fffffffffffffffULL) || (g_sc.neg && g_sc.mag > 0x8000000000000000ULL)) {
    errno = ERANGE;
    return g_sc.neg ? (-0x7fffffffffffffffL - 1) : 0x7fffffffffffffffL;
  }
  return g_sc.neg ? static_cast<long>(0 - g_sc.mag) : static_cast<long>(g_sc.mag);
}
extern "C" unsigned long strtoul(const char* s, char** end, int) __THROW {
  if (g_sc.kind != 2) { if (end) *end = const_cast<char*>(s); return 0; }
  if (end) *end = dummyEnd(s);
  if (g_sc.huge) { errno = ERANGE; return ~0UL; }
  return g_sc.neg ? 0 - g_sc.mag : g_sc.mag;   // glibc: a minus sign negates in unsigned arithmetic, no error
}
extern "C" double strtod(const char* s, char** end) __THROW {
  if (g_sc.kind != 2) { if (end) *end = const_cast<char*>(s); return 0.0; }
  if (end) *end = dummyEnd(s);
  return g_sc.dval;                            // finite values, +-inf ("inf") and NaN ("nan") are all valid results
}
static std::string scenarioText(const Scenario& s, bool decimal) {
  if (s.kind == 0) return "-";
  if (s.kind == 1) return "";
  // the dummy keeps the sign character of the real text; one literal per case (no string arithmetic on symbolic lengths)
  const uint8_t sfx = (decimal && s.suffix == 2) ? 0 : s.suffix;   // a decimal text already carries its fraction
  const char* t = (!decimal && s.neg) ? (sfx == 0 ? " -1" : sfx == 1 ? " -1x" : " -1.5")
                                      : (sfx == 0 ? " 1" : sfx == 1 ? " 1x" : " 1.5");
  return s.lead ? t : t + 1;   // with or without the leading blank
}

#else
static std::string scenarioText(const Scenario& s, bool decimal) {
  if (s.kind == 0) return "-";
  if (s.kind == 1) return "";
  char buf[64];
  if (decimal) {
    if (s.dval != s.dval) snprintf(buf, sizeof buf, "nan");
    else if (s.dval - s.dval != 0) snprintf(buf, sizeof buf, "%sinf", s.dval < 0 ? "-" : "");
    else snprintf(buf, sizeof buf, "%.17g", s.dval);
  } else if (s.huge) snprintf(buf, sizeof buf, "%s99999999999999999999999", s.neg ? "-" : "");
  else snprintf(buf, sizeof buf, "%s%llu", s.neg ? "-" : "", static_cast<unsigned long long>(s.mag));
  std::string t = std::string(s.lead ? " " : "") + buf;
  if (decimal) return s.suffix == 0 ? t : s.suffix == 1 ? t + "x" : t;   // ".5" after a decimal is not a separate suffix
  return s.suffix == 0 ? t : s.suffix == 1 ? t + "x" : t + ".5";
}
#endif

// ---- type under test (job parameters) --------------------------------------------------------------------------------
#ifndef T_BITS
#error "type parameters missing"
#endif
static const NumberDataType& theType() {
  static const NumberDataType t("TST", T_BITS, T_FLAGS, T_REPL, T_MIN, T_MAX, T_DIV);
  return t;
}
static int64_t refSigned(uint32_t raw) {  // value of a raw pattern: two's complement of T_BITS for signed types
  if (!((T_FLAGS) & SIG)) return raw;
  if (T_BITS == 32) return static_cast<int32_t>(raw);
  return (raw & (1u << (T_BITS - 1))) ? static_cast<int64_t>(raw) - (static_cast<int64_t>(1) << T_BITS) : raw;
}

extern "C" void vp_main() {
  const NumberDataType& t = theType();
  g_sc = drawScenario();
  const bool decimal = (T_DIV) != 1;
  const bool req = ((T_FLAGS) & REQ) != 0;
#if defined(H_ERRNO)
  // C12: the result must not depend on what an earlier operation left in errno
  std::string text = scenarioText(g_sc, decimal);
  unsigned int v1 = 0, v2 = 0;
  errno = 0;
  result_t r1 = t.parseInput(text, &v1);
  errno = ERANGE;   // e.g. left behind by an earlier overflowing input in the same thread
  result_t r2 = t.parseInput(text, &v2);
  vp_known("KF-C12-ERRNO-STALE", g_sc.kind == 2);
  vp_assert("result-independent-of-stale-errno", r1 == r2 && (r1 != RESULT_OK || v1 == v2));
  if (r1 == RESULT_OK && g_sc.kind == 2) vp_cover("accepted-number");
  vp_observe("r1", static_cast<uint64_t>(static_cast<int64_t>(r1)));
#elif defined(H_INVERSE)
  // C06 at the value level: the text ebusd prints for an in-range raw value r denotes sv (integer types), sv*|div| (negative
  // divisor) or sv/10^k (decimal divisor, printed with exactly k digits, so strtod returns the correctly rounded quotient);
  // encoding that text must succeed and give r back
  uint32_t r0 = vp_nondet_u32();
  if ((T_BITS) < 32) r0 &= (1u << (T_BITS)) - 1;
  int64_t sv = refSigned(r0), lo0 = refSigned(T_MIN), hi0 = refSigned(T_MAX);
  vp_assume(sv >= lo0 && sv <= hi0 && (req || r0 != (T_REPL)));
  g_sc.kind = 2; g_sc.huge = false; g_sc.suffix = 0; g_sc.lead = false; g_sc.errno0 = 0;
  g_sc.neg = sv < 0; g_sc.mag = sv < 0 ? static_cast<uint64_t>(-sv) : static_cast<uint64_t>(sv);
  g_sc.dval = (T_DIV) > 0 ? static_cast<double>(sv) / static_cast<double>(T_DIV) : static_cast<double>(sv) * static_cast<double>(-(T_DIV));
  std::string text = scenarioText(g_sc, decimal);
  errno = 0;
  unsigned int raw = 0xdeadbeef;
  result_t r = t.parseInput(text, &raw);
  vp_assert("text-of-a-decoded-value-encodes-again", r == RESULT_OK);
  vp_assert("and-reproduces-the-raw-value", r != RESULT_OK || raw == r0);
  if (sv == lo0) vp_cover("minimum-value");
  if (sv == hi0) vp_cover("maximum-value");
  vp_observe("r", static_cast<uint64_t>(static_cast<int64_t>(r)));
#else
  std::string text = scenarioText(g_sc, decimal);
  errno = g_sc.errno0;
  unsigned int raw = 0xdeadbeef;
  result_t r = t.parseInput(text, &raw);
  vp_observe("r", static_cast<uint64_t>(static_cast<int64_t>(r)));
  if (r == RESULT_OK) vp_observe("raw", raw);
  if (r != RESULT_OK) { vp_cover("rejected"); return; }
  if (g_sc.kind == 0) {
    vp_assert("null-text-yields-replacement-unless-required", !req ? raw == (T_REPL) : true);
    if (!req) vp_cover("null-accepted");
    if (!req) return;
  }
  vp_assert("empty-text-is-rejected", g_sc.kind != 1);
  if (g_sc.kind != 2) return;
  // ---- a number was accepted ----
  int64_t lo = refSigned(T_MIN), hi = refSigned(T_MAX), got = refSigned(raw);
  if (!decimal) {
    // integer types: the text denotes M = +-mag (or beyond 64 bits); ".5"-style fractions are truncated (within one step)
    vp_known("KF-C07-INT-WRAP", g_sc.huge || g_sc.mag > 0x7fffffffULL);
    vp_known("KF-C07-UNSIGNED-NEGATIVE", g_sc.neg && g_sc.mag != 0 && !((T_FLAGS) & SIG));
    vp_assert("accepted-only-wellformed-text", g_sc.suffix != 1);
    vp_assert("accepted-value-not-beyond-64-bits", !g_sc.huge);
    bool inRange = !g_sc.huge && g_sc.mag <= 0x7fffffffffffffffULL;
    int64_t M = g_sc.neg ? -static_cast<int64_t>(g_sc.mag) : static_cast<int64_t>(g_sc.mag);
    vp_assert("accepted-value-within-type-range", inRange && M >= lo && M <= hi);
    vp_assert("encoded-raw-decodes-to-the-requested-value", inRange && got == M);
    vp_assert("raw-is-not-the-replacement-pattern", req || raw != (T_REPL));
    vp_cover("integer-accepted");
  } else {
    double d = g_sc.dval;
    vp_known("KF-C07-NAN", d != d);
    vp_assert("accepted-only-wellformed-text", g_sc.suffix != 1);
    vp_assert("accepted-value-is-finite", d == d && d - d == 0);
    double scaled = (T_DIV) > 0 ? d * static_cast<double>(T_DIV) : d / static_cast<double>(-(T_DIV));
    double diff = static_cast<double>(got) - scaled;
    vp_assert("encoded-raw-within-one-resolution-step", diff <= 1.000001 && diff >= -1.000001);
    vp_assert("accepted-value-within-type-range", got >= lo && got <= hi);
    vp_assert("raw-is-not-the-replacement-pattern", req || raw != (T_REPL));
    vp_cover("decimal-accepted");
  }
#endif
}
