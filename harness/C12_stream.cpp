// C12 -- a field's decoded text does not depend on what other fields formatted before on the same output: the real
// DateTimeDataType / StringDataType / NumberDataType::readSymbols is run twice on the same bytes, once into a fresh
// ostringstream and once into a stream carrying every formatting state that ebusd's own field formatting can leave behind
// (base hex or dec, fixed notation or none, fill '0' or ' ', precision 0..9 -- the manipulators used in datatype.cpp/data.cpp;
// width is consumed by every insertion and reset by setw(0)), with text already present; asserted: same result code and the
// appended text is identical. One type per job.
#include "vp.h"
#include <sstream>
#include <iomanip>
#include "lib/utils/log.h"
namespace ebusd {
bool needsLog(const LogFacility, const LogLevel) { return false; }
void logWrite(const LogFacility, const LogLevel, const char*, ...) {}
void logWrite(const char*, const LogLevel, const char*, ...) {}
}
#include "lib/ebus/datatype.h"
using namespace ebusd;
#define LEN ((D_BITS) / 8)
extern "C" void vp_main() {
#if defined(S_HEX)
  static const StringDataType t("TST", D_BITS, D_FLAGS, ' ', S_HEX);
#elif defined(N_DIV)
  static const NumberDataType t("TST", D_BITS, D_FLAGS, D_REPL, N_MIN, N_MAX, N_DIV);
#else
  static const DateTimeDataType t("TST", D_BITS, D_FLAGS, D_REPL, D_DATE, D_TIME, 0);
#endif
  uint8_t b[LEN];
  for (int i = 0; i < LEN; i++) b[i] = vp_nondet_u8();
#if defined(S_HEX) && !S_HEX
  for (int i = 0; i < LEN; i++) vp_assume(b[i] == 0 || (b[i] >= 'a' && b[i] <= 'c') || b[i] == '"' || b[i] < 3);   // small alphabet incl. terminator, control and quote
#endif
  SlaveSymbolString in;
  in.m_data.reserve(LEN + 2);
  in.push_back(LEN);
  for (int i = 0; i < LEN; i++) in.push_back(b[i]);
  OutputFormat of = vp_nondet_bool() ? OF_JSON : OF_NONE;
  std::ostringstream fresh, used;
  // what another field can have left behind
  used << "x=";
  if (vp_nondet_bool()) used << std::hex; else used << std::dec;
  if (vp_nondet_bool()) used << std::fixed;
  used << std::setfill(vp_nondet_bool() ? '0' : ' ');
  uint8_t prec = vp_nondet_u8();
  vp_assume(prec <= 9);
  used << std::setprecision(prec);
  result_t r1 = t.readSymbols(0, LEN, in, of, &fresh);
  result_t r2 = t.readSymbols(0, LEN, in, of, &used);
  vp_assert("same-result-code-on-a-used-stream", r1 == r2);
  std::string s1 = fresh.str(), s2 = used.str();
  bool same = s2.size() == s1.size() + 2 && s2.size() >= 2 && s2[0] == 'x' && s2[1] == '=';
  for (int i = 0; i < 24; i++) if (i < static_cast<int>(s1.size()) && i + 2 < static_cast<int>(s2.size()) && s1[i] != s2[i + 2]) same = false;
  vp_assert("same-text-on-a-used-stream (independent of formatting state left by other fields)", same);
  vp_assert("harness: text fits the comparison window", s1.size() <= 24);
  if (r1 == RESULT_OK) vp_cover("decoded"); 
  vp_observe("len", s1.size());
}
