// C11 -- CRC, escaping and address classes (pure kernels). DESIGN.md section 4/C11.
// Real code under test: src/lib/ebus/symbol.cpp (included, so file-statics like CRC_LOOKUP_TABLE are the real ones).
#include "vp.h"
#include "lib/ebus/symbol.cpp"
using namespace ebusd;

// ---- independent references (written from the eBUS specification text, not from symbol.cpp) ----
// CRC-8, generator x^8+x^7+x^4+x^3+x+1, bit-serial division, MSB first, as in the eBUS spec appendix
static uint8_t ref_crc_step(uint8_t crc, uint8_t data) {
  for (int i = 0; i < 8; i++) {
    uint8_t poly = (crc & 0x80) ? 0x9B : 0;
    crc = static_cast<uint8_t>((crc & 0x7f) << 1);
    if (data & 0x80) crc |= 1;
    crc ^= poly;
    data = static_cast<uint8_t>(data << 1);
  }
  return crc;
}
static bool ref_nibble_ok(uint8_t n) { return n == 0x0 || n == 0x1 || n == 0x3 || n == 0x7 || n == 0xF; }
static bool ref_is_master(uint8_t a) { return ref_nibble_ok(a & 0x0f) && ref_nibble_ok(a >> 4); }

#if defined(H_CRC_STEP)
extern "C" void vp_main() {
  uint8_t crc = vp_nondet_u8(), v = vp_nondet_u8();
  uint8_t c = crc;
  SymbolString::updateCrc(v, &c);
  vp_assert("crc-step-equals-polynomial-division", c == ref_crc_step(crc, v));
  if (crc == 0x5a && v == 0xa9) vp_cover("crc-step-reached");
}
#elif defined(H_CRC_FOLD)
#ifndef N
#define N 8
#endif
// STEP is the per-symbol reference: with -DDIRECT the bit-serial division itself (small N: the solver has to re-derive
// the table), otherwise the real table step, which crc_step proves equal to the division for all 65536 inputs
// (compositional: step lemma + this fold lemma = CRC of strings of any length <= N)
#ifdef DIRECT
#define STEP(c, v) ref_crc_step(c, v)
#else
static uint8_t real_step(uint8_t c, uint8_t v) { SymbolString::updateCrc(v, &c); return c; }
#define STEP(c, v) real_step(c, v)
#endif
extern "C" void vp_main() {
  MasterSymbolString m;
  uint8_t n = vp_nondet_u8();
  vp_assume(n <= N);
  m.m_data.reserve(N);  // capacity is unobservable; avoids re-encoding vector growth (DESIGN 2.3 vecgrow)
  uint8_t ref = 0;
  bool esc = false;
  for (uint8_t i = 0; i < n; i++) {
    uint8_t b = vp_nondet_u8();
    m.push_back(b);
    // reference: CRC over the escaped sequence (A9 -> A9 00, AA -> A9 01), initial value 0
    if (b == 0xA9) { ref = STEP(ref, 0xA9); ref = STEP(ref, 0x00); esc = true; }
    else if (b == 0xAA) { ref = STEP(ref, 0xA9); ref = STEP(ref, 0x01); esc = true; }
    else ref = STEP(ref, b);
  }
  uint8_t got = m.calcCrc();
  vp_assert("crc-of-string-equals-fold-over-escaped-bytes", got == ref);
  vp_observe("crc", got);
  if (n == N && esc) vp_cover("crc-fold-full-length-with-escape");
  if (n == 0) { vp_cover("crc-fold-empty"); vp_assert("crc-empty-is-zero", got == 0); }
}
#elif defined(H_ADDR)
extern "C" void vp_main() {
  uint8_t a = vp_nondet_u8(), b = vp_nondet_u8();
  bool m = isMaster(a);
  vp_assert("master-iff-both-nibbles-in-set", m == ref_is_master(a));
  unsigned num = getMasterNumber(a);
  vp_assert("master-number-1..25-exactly-on-masters", m ? (num >= 1 && num <= 25) : true);
  // getMasterNumber is documented on valid addresses: 0 unless both nibbles are master nibbles
  vp_assert("master-number-zero-iff-not-master", (num == 0) == !m);
  // injective on masters
  if (m && isMaster(b) && a != b) vp_assert("master-number-injective", getMasterNumber(b) != num);
  // priority: number orders by priority class (low nibble index) first, then by high nibble index
  if (m && isMaster(b)) {
    unsigned pa = getMasterPartIndex(a & 0x0f), pb = getMasterPartIndex(b & 0x0f);
    unsigned ia = getMasterPartIndex(a >> 4), ib = getMasterPartIndex(b >> 4);
    bool refLess = pa < pb || (pa == pb && ia < ib);
    vp_assert("master-number-ordered-by-priority-class-then-subaddress", refLess == (num < getMasterNumber(b)));
    // independent reference for class order: nibble values 0<1<3<7<F
    bool refLess2 = (a & 0x0f) < (b & 0x0f) || ((a & 0x0f) == (b & 0x0f) && (a >> 4) < (b >> 4));
    vp_assert("priority-order-follows-nibble-values", refLess2 == (num < getMasterNumber(b)));
  }
  // onto: every number 1..25 has a master
  uint8_t k = vp_nondet_u8();
  vp_assume(k >= 1 && k <= 25);
  static const uint8_t nib[5] = {0x0, 0x1, 0x3, 0x7, 0xF};
  uint8_t inv = static_cast<uint8_t>((nib[(k - 1) % 5] << 4) | nib[(k - 1) / 5]);
  vp_assert("master-number-onto", getMasterNumber(inv) == k && isMaster(inv));
  // slave mapping
  uint8_t s = getSlaveAddress(a);
  if (m) {
    vp_assert("slave-of-master-is-plus-5", s == static_cast<uint8_t>(a + 5));
    vp_assert("master-of-slave-roundtrip", getMasterAddress(s) == a);
    vp_assert("slave-of-master-is-slavemaster", isSlaveMaster(s));
    vp_assert("slave-address-valid-non-master", isValidAddress(s, false) && !isMaster(s));
    vp_assert("master-of-master-is-identity", getMasterAddress(a) == a);
  }
  vp_assert("slavemaster-iff-minus5-is-master", isSlaveMaster(a) == ref_is_master(static_cast<uint8_t>(a - 5)));
  uint8_t ma = getMasterAddress(a);
  vp_assert("getMasterAddress-returns-master-or-SYN", ma == SYN || ref_is_master(ma));
  vp_assert("getMasterAddress-SYN-iff-neither", (ma == SYN) == !(ref_is_master(a) || ref_is_master(static_cast<uint8_t>(a - 5))));
  // SYN and ESC are never valid addresses, never masters, never slaves of masters' mapping results
  vp_assert("valid-address-excludes-exactly-SYN-ESC", isValidAddress(a, true) == (a != 0xAA && a != 0xA9));
  vp_assert("valid-address-nobroadcast", isValidAddress(a, false) == (a != 0xAA && a != 0xA9 && a != 0xFE));
  if (a == 0xAA || a == 0xA9) {
    vp_assert("SYN-ESC-not-master", !m);
    vp_assert("SYN-ESC-have-no-slave-address", s == SYN);
    vp_cover("addr-syn-esc");
  }
  if (!m) vp_assert("slave-address-of-non-master", s == (isValidAddress(a, false) ? a : SYN));
  if (m && isMaster(b) && a != b) vp_cover("addr-two-masters");
}
#elif defined(H_HEX)
#ifndef N
#define N 3
#endif
static char hexdigit(uint8_t nib, bool upper) { return static_cast<char>(nib < 10 ? '0' + nib : (upper ? 'A' : 'a') + (nib - 10)); }
extern "C" void vp_main() {
  // an arbitrary escaped byte sequence e[0..k) written as hex text with arbitrary digit case
  // the length is a job parameter (one CBMC process per length): concrete lengths keep every string loop exactly bounded
  const uint8_t k = N;
  uint8_t e[N + 1];
  char text[2 * N + 1];
  for (uint8_t i = 0; i < k; i++) {
    e[i] = vp_nondet_u8();
    text[2 * i] = hexdigit(e[i] >> 4, vp_nondet_bool());
    text[2 * i + 1] = hexdigit(e[i] & 0x0f, vp_nondet_bool());
  }
  text[2 * k] = 0;
  // reference unescaper (eBUS: A9 00 -> A9, A9 01 -> AA; bare AA, dangling A9, A9 xx invalid)
  uint8_t out[N + 1];
  uint8_t on = 0;
  bool inEsc = false, bad = false;
  for (uint8_t i = 0; i < k && !bad; i++) {
    if (inEsc) {
      if (e[i] == 0x00) out[on++] = 0xA9; else if (e[i] == 0x01) out[on++] = 0xAA; else bad = true;
      inEsc = false;
    } else if (e[i] == 0xA9) inEsc = true;
    else if (e[i] == 0xAA) bad = true;
    else out[on++] = e[i];
  }
  if (inEsc) bad = true;
#ifndef HEX_PLAIN
  {
    MasterSymbolString m;
    m.m_data.reserve(N + 1);
    result_t r = m.parseHexEscaped(std::string(text, 2 * k));
    vp_assert("parseHexEscaped-ok-iff-wellformed-escaping", (r == RESULT_OK) == !bad);
    if (bad) vp_assert("parseHexEscaped-reports-ESC-error", r == RESULT_ERR_ESC);
    if (!bad) {
      vp_assert("parseHexEscaped-length", m.size() == on);
      bool same = m.size() == on;
      for (uint8_t i = 0; same && i < on; i++) same = m.data()[i] == out[i];
      vp_assert("parseHexEscaped-inverts-escaping", same);
      if (N < 2 || on == N - 1) vp_cover("hex-escaped-accepted");
    } else vp_cover("hex-escaped-rejected");
    vp_observe("r", static_cast<uint64_t>(static_cast<int64_t>(r)));
  }
#else
  {
    SlaveSymbolString p;
    p.m_data.reserve(N + 1);
    result_t r = p.parseHex(std::string(text, 2 * k));
    vp_assert("parseHex-ok", r == RESULT_OK);
    bool same = p.size() == k;
    for (uint8_t i = 0; same && i < k; i++) same = p.data()[i] == e[i];
    vp_assert("parseHex-is-identity-without-unescaping", same);
    vp_cover("hex-plain-parsed");
  }
#endif
}
#else
#error "select a harness with -DH_..."
#endif
