// C02 / C03 / C04 -- own (active) exchange, S shape (one inductive step).
// From ANY handler state with an own request in one of the phases {arbitration address written and its echo awaited;
// sending command bytes / command CRC; waiting for the command ACK; receiving the response / its CRC; sending the
// response ACK/NAK; sending the closing SYN} that is related (relation RA below) to a state of the independent sender
// monitor ref::Sender, ONE handler step (handleSend + handleReceive on the real PlainDevice, every read outcome chosen by
// the solver) writes exactly the symbol the monitor expects (or nothing), completes the request exactly when the monitor
// says the exchange ended, with success iff the monitor judged it valid, reports md_send iff success, and ends in RA again
// or in the passive relation of C01 (rel_bus.h). The entry into RA is the arbitration phase, which is part of RA.
// Assertion groups are selected by -DPROP=2|3|4 so that every verdict is attributed to one property:
//   2: wire format and truthful completion   3: entitlement of every write   4: request bookkeeping (exactly once)
#include "env_bus.h"
static uint8_t tableStep(uint8_t c, uint8_t v) { ebusd::SymbolString::updateCrc(v, &c); return c; }
#ifndef REF_BITSERIAL
#define REF_CRC_STEP(c, v) tableStep(c, v)   // justified by C11/crc_step
#endif
#ifndef NNMAX
#define NNMAX 3
#endif
#ifndef PROP
#define PROP 2
#endif
#define CAP (NNMAX + 5)
#define REF_MAXL CAP
#include "ref_bus.h"

// events of the current step, in order
static uint8_t g_rd[4], g_wr[4];
static uint8_t g_nRd = 0, g_nWr = 0;
static uint8_t g_wrBeforeRd = 0;   // writes that happened before the first read of the step
namespace ebusd {
void env_on_read(uint8_t b, bool) { if (g_nRd < 4) g_rd[g_nRd] = b; g_nRd++; }
void env_on_write(uint8_t b) { if (g_nWr < 4) g_wr[g_nWr] = b; g_nWr++; if (g_nRd == 0) g_wrBeforeRd++; }
}
#include "rel_bus.h"

#ifdef VP_NATIVE
#include <cstdio>
#include <cstdlib>
static void dump(const char* tag, DirectProtocolHandler& h, const S& r, TapeTransport* tr) {
  if (!getenv("VP_DEBUG")) return;
  const P& p = r.p;
  PlainDevice* d = static_cast<PlainDevice*>(h.m_device);
  fprintf(stderr, "%s: h.state=%d cur=%p esc=%02x crc=%02x crcValid=%d repeat=%d pos=%zu cmd[%zu] res[%zu] dev=(%02x,%zu) q=%p| r.arb=%d own=%d endSyn=%d ph=%d esc=%d crc=%02x crcOk=%d cmdRep=%d resRep=%d need=%d mlen=%d slen=%d done=%d ok=%d may=%d lost=%d| nRd=%d rd=%02x nWr=%d wr=%02x notify=%d res=%d\n",
    tag, h.m_state, (void*)h.m_currentRequest, h.m_escape, h.m_crc, h.m_crcValid, h.m_repeat, h.m_nextSendPos, h.m_command.size(), h.m_response.size(),
    d->m_arbitrationMaster, d->m_arbitrationCheck, (void*)h.m_nextRequests.peek(),
    r.arb, r.own, r.endSyn, p.ph, p.esc, p.crc, p.crcOk, p.cmdRepeat, p.resRepeat, p.need, p.mlen, p.slen, r.done, r.ok, r.mayEndSyn, r.lost,
    g_nRd, g_rd[0], g_nWr, g_wr[0], g_notifyCount[0], g_notifyResult[0]);
}
#else
#define dump(a, b, c, d) ((void)0)
#endif

extern "C" void vp_main() {
  ebus_protocol_config_t cfg = env_config();
  vp_assume(!cfg.readOnly);
  TapeTransport* tr = new TapeTransport();
  tr->m_allowWriteErrors = false;
  PlainDevice* dev = new PlainDevice(tr);
  static RecListener lst;
  DirectProtocolHandler& h = *new DirectProtocolHandler(cfg, dev, &lst);
  static S r;
  P& p = r.p;
  // ---- arbitrary monitor state ----
  // the phase of the exchange is a job parameter (MODE 0: arbitration echo awaited, 1: exchange in progress, 2: closing SYN due)
#if MODE == 0
  r.arb = true;
#elif MODE == 1
  r.own = true;
#else
  r.endSyn = true;
#endif
  p.ph = vp_nondet_u8(); p.esc = vp_nondet_bool(); p.cmdRepeat = vp_nondet_bool(); p.resRepeat = vp_nondet_bool();
  p.crcOk = vp_nondet_bool(); p.crc = vp_nondet_u8(); p.need = vp_nondet_u8();
  p.mlen = vp_nondet_u8(); p.slen = vp_nondet_u8();
  vp_assume(p.mlen <= CAP && p.slen <= CAP);
  for (int i = 0; i < CAP; i++) { p.m[i] = vp_nondet_u8(); p.s[i] = vp_nondet_u8(); r.M[i] = vp_nondet_u8(); }
  vp_assume(senderInv(r));
  // ---- the request(s): req0 is the own request of the exchange; optionally one more waits in the queue and one is finished ----
  bool del0 = vp_nondet_bool();
  RecRequest* req0 = new RecRequest(0, del0);
  {
    uint8_t total = static_cast<uint8_t>(5 + r.M[4]);
    req0->m_own.m_data.reserve(CAP + 2);
    for (int i = 0; i < CAP; i++) req0->m_own.m_data.push_back(r.M[i]);
    req0->m_own.m_data._M_impl._M_finish = req0->m_own.m_data._M_impl._M_start + total;
  }
  req0->m_busLostRetries = vp_nondet_u8() % 4;
  g_restart[0] = vp_nondet_bool();
#if PROP == 4
  bool haveOther = vp_nondet_bool(), haveFinished = vp_nondet_bool();
#else
  bool haveOther = false, haveFinished = false;   // bystander requests only matter for the bookkeeping assertions
#endif
  bool del1 = vp_nondet_bool();
  RecRequest* req1 = new RecRequest(1, del1);
  RecRequest* req2 = new RecRequest(2, false);
  g_restart[1] = vp_nondet_bool();
  if (r.arb) h.m_nextRequests.push(req0);
  if (haveOther) h.m_nextRequests.push(req1);
  if (haveFinished) h.m_finishedRequests.push(req2);
  if (r.own) h.m_currentRequest = req0;
  // ---- a handler state related to the monitor: every field the relation does not fix is arbitrary ----
  h.m_state = static_cast<BusState>(HSTATE);   // job parameter: one job per handler state the relation admits for this phase
  uint8_t rs[CAP];
  uint8_t rl = vp_nondet_u8();
  vp_assume(rl <= CAP);
  for (int i = 0; i < CAP; i++) rs[i] = vp_nondet_u8();
  h.m_command.m_data.reserve(CAP + 2);
  setVec(h.m_response.m_data, rs, rl);
  h.m_crc = vp_nondet_u8(); h.m_escape = vp_nondet_u8(); h.m_crcValid = vp_nondet_bool(); h.m_repeat = vp_nondet_bool();
  h.m_nextSendPos = vp_nondet_u8();
  h.m_remainLockCount = vp_nondet_u8();
  h.m_lockCount = vp_nondet_u8();
  h.m_masterCount = vp_nondet_u8();
  h.m_addressConflict = vp_nondet_bool();
  for (int i = 0; i < 256; i++) h.m_seenAddresses[i] = vp_nondet_bool();
  h.m_symbolLatencyMin = static_cast<int>(vp_nondet_u32()); h.m_symbolLatencyMax = static_cast<int>(vp_nondet_u32());
  h.m_arbitrationDelayMin = static_cast<int>(vp_nondet_u32()); h.m_arbitrationDelayMax = static_cast<int>(vp_nondet_u32());
  h.m_lastSynReceiveTime.tv_sec = static_cast<time_t>(vp_nondet_u32());
  { uint32_t ns = vp_nondet_u32(); vp_assume(ns < 1000000000u); h.m_lastSynReceiveTime.tv_nsec = static_cast<long>(ns); }
  h.m_lastReceive = static_cast<time_t>(vp_nondet_u32());
  if (cfg.generateSyn && vp_nondet_bool()) h.m_generateSynInterval = SYN_INTERVAL;
  h.m_listenerState = static_cast<ProtocolState>(vp_nondet_u8() % 6);
  if (r.arb) { dev->m_arbitrationMaster = r.M[0]; dev->m_arbitrationCheck = 1; }
  vp_assume(relatedActive(h, r, req0));
  // transport: up to ENV_MAXCHUNK bytes may already be buffered
  uint8_t buffered = vp_nondet_u8();
  vp_assume(buffered <= ENV_MAXCHUNK);
  for (uint8_t i = 0; i < ENV_MAXCHUNK; i++) tr->m_buf[i] = vp_nondet_u8();
  tr->m_len = buffered;
#ifdef ARBCASE
  // the arbitration step is decided in three cases that together cover every read outcome: 0 = the address comes back
  // (won), 1 = another symbol comes back (lost), 2 = nothing is read (timeout / device error)
  {
    uint8_t next = vp_nondet_u8();   // the next symbol the wire delivers, whether already buffered or read fresh
    tr->m_forced = true; tr->m_forcedByte = next;
    if (buffered >= 1) vp_assume(tr->m_buf[0] == next);
#if ARBCASE == 0
    vp_assume(next == r.M[0]);
    tr->m_allowErrors = false; tr->m_noTimeout = true;
#elif ARBCASE == 1
    vp_assume(next != r.M[0]);
    tr->m_allowErrors = false; tr->m_noTimeout = true;
#else
    vp_assume(buffered == 0);
    tr->m_bytesLeft = 0;   // every read times out or fails
#endif
  }
#endif
  Stepper st(&h);
  // an own exchange always starts its step with handleSend: the previous receive of a sending step never leaves the
  // step loop with "more buffered" unprocessed -- except that run() keeps receiving while data is buffered; both cases:
  st.cont = vp_nondet_bool();
  vp_assume(!st.cont || tr->m_len >= 1);
  st.result = st.cont ? RESULT_CONTINUE : RESULT_OK;
#ifndef WITH_CONT
  vp_assume(!st.cont);
#endif
  unsigned msgBefore = lst.m_nmsg;
  unsigned faultsBefore = tr->m_nfault;
  uint8_t retriesBefore = static_cast<uint8_t>(req0->m_busLostRetries);
  bool wasArb = r.arb, wasOwn = r.own, wasEndSyn = r.endSyn, wasEsc = p.esc, preResRepeat = p.resRepeat;
  uint8_t prePh = p.ph;
  uint8_t expW = 0;
  bool hasW = r.expectWrite(&expW);
  g_nRd = g_nWr = g_wrBeforeRd = 0;
  dump("pre ", h, r, tr);
  st.step();
  // ---- the monitor consumes the step's events ----
  bool fault = tr->m_nfault != faultsBefore;
  vp_assert("harness: at most one symbol read per active step", g_nRd <= 1);
  if (fault) r.fault();
  else if (g_nRd == 1) r.sym(g_nWr >= 1, g_wr[0], g_rd[0]);
  dump("post", h, r, tr);
  unsigned newMsg = lst.m_nmsg - msgBefore;
  // regions of the defects found with this harness (all repaired in /repo; listed in known_findings.json as fixed)
  vp_known("KF-C02-SYN-KEEPS-REQUEST", wasOwn && !fault && g_nRd == 1 && g_rd[0] == 0xAA);
  vp_known("KF-C02-CONTINUE-AS-RESULT", wasOwn && r.done && r.ok && st.cont);
  vp_known("KF-C02-FIRST-RESCRC-ERROR-NO-NAK", wasOwn && prePh == P::RCRC && !preResRepeat && !fault && g_nRd == 1 && p.ph == P::RESACK && !p.crcOk);
#if PROP == 2
  // ---- wire format ----
  vp_assert("writes-exactly-the-expected-number-of-symbols", g_nWr == (hasW ? 1 : 0));
  if (hasW && g_nWr == 1) {
    vp_assert("written-symbol-is-the-escaped-next-byte-crc-ack-or-syn", g_wr[0] == expW);
    vp_assert("symbol-is-written-before-its-echo-is-read", g_wrBeforeRd == 1);
  }
  // ---- truthful completion ----
  if (wasOwn) {
    // a request that asks for a restart starts a new life in the queue; when the same step also detects the loss of the
    // signal, that new life is ended at once with NO_SIGNAL (second completion, of the restarted request)
    bool drained = g_restart[0] && h.m_state == bs_noSignal && g_notifyCount[0] == 2 && g_notifyResult[0] == RESULT_ERR_NO_SIGNAL;
    vp_assert("request-completes-exactly-when-the-exchange-ends", (g_notifyCount[0] != 0) == r.done && (g_notifyCount[0] <= 1 || drained));
    if (r.done && g_notifyCount[0] == 1) {
      vp_assert("success-iff-exchange-valid", (g_notifyResult[0] == RESULT_OK) == r.ok);
      vp_assert("failure-is-an-error-code", r.ok || g_notifyResult[0] < 0);
      if (r.ok) {
        bool same = g_slaveLen[0] == p.slen;
        for (int j = 0; j < CAP; j++) if (j < p.slen && j < g_slaveLen[0] && g_slave[0].b[j] != p.s[j]) same = false;
        vp_assert("request-carries-the-unescaped-slave-response", same);
      }
    }
    vp_assert("reported-as-sent-iff-success", newMsg == ((r.done && r.ok) ? 1u : 0u));
    if (newMsg == 1) {
      const RecMsg& q = lst.m_msg[0];
      vp_assert("reported-direction-is-send", q.dir == md_send);
      bool same = q.mlen == 5 + r.M[4] && q.slen == p.slen;
      for (uint8_t j = 0; j < CAP; j++) {
        if (j < q.mlen && q.m[j] != r.M[j]) same = false;
        if (j < p.slen && j < q.slen && q.s[j] != p.s[j]) same = false;
      }
      vp_assert("reported-telegram-is-the-request-and-the-received-response", same);
#if HSTATE == 10  // bs_sendCmdCrc
      if (r.M[1] == 0xFE) vp_cover("bc-request-sent");
#elif HSTATE == 5  // bs_recvCmdAck
      if (ref::is_master(r.M[1])) vp_cover("mm-request-sent");
#elif HSTATE == 11  // bs_sendResAck
      if (p.resRepeat) vp_cover("ms-request-sent-after-response-repeat");
      else vp_cover("ms-request-sent");
#endif
    }
  } else {
    if (wasEndSyn) vp_assert("no-message-reported-while-closing", newMsg == 0);
  }
#endif
#if PROP == 3
  // ---- entitlement: in these states a write is allowed only as the monitor's expected symbol, after a won arbitration ----
  vp_assert("no-write-unless-continuing-a-won-exchange", g_nWr == 0 || (hasW && (wasOwn || wasEndSyn)));
  if (g_nWr >= 1) {
    vp_assert("at-most-one-symbol-per-step", g_nWr == 1);
    vp_assert("written-symbol-is-the-continuation", g_wr[0] == expW);
  }
  // after an echo mismatch, a receive error or a SYN the sender must be silent: the successor state is passive
  if (wasOwn && r.done && !r.ok && !r.mayEndSyn) vp_assert("silent-after-fault-or-echo-mismatch", h.m_state != bs_sendSyn && h.m_state < bs_sendCmd);
#endif
#if PROP == 4
  // ---- request bookkeeping ----
  {
    unsigned inNext = countIn(h.m_nextRequests, req0), inFin = countIn(h.m_finishedRequests, req0);
    bool cur = h.m_currentRequest == req0;
    bool noSignal = h.m_state == bs_noSignal;
    bool devError = tr->m_nrderr != 0;
    uint8_t cnt = g_notifyCount[0];
    // (1) conservation: the request is in exactly one place, never in two, deleted at most once
    unsigned places = (cur ? 1u : 0u) + inNext + inFin + g_deleted[0];
#if MODE == 2
    vp_assert("no-request-is-involved-in-the-closing-syn", places == 0 && cnt == 0);   // the request of the ended exchange was disposed of before
#else
    vp_assert("request-is-in-exactly-one-place", places == 1);
    vp_assert("nothing-else-became-current", h.m_currentRequest == nullptr || cur);
    // (2) the place agrees with the completion callbacks
    if (cur) vp_assert("current-request-not-completed-yet", cnt == 0);
    if (inFin == 1) vp_assert("finished-queue-only-after-completion-of-a-waited-request", cnt >= 1 && !del0);
    if (g_deleted[0] == 1) vp_assert("deleted-only-after-completion-of-a-self-deleting-request", cnt >= 1 && del0);
    if (inNext == 1) vp_assert("queued-means-untouched-retried-or-restarted", cnt == 0 || (cnt == 1 && g_restart[0]));
    // (3) exactly once: a second completion only for the new life of a restarted request when the signal is lost in the same step
    bool drained = g_restart[0] && noSignal && cnt == 2 && g_notifyResult[0] == RESULT_ERR_NO_SIGNAL;
    vp_assert("completed-at-most-once", cnt <= 1 || drained);
    // (4) completion happens exactly when it is due
    bool lostNow = wasArb && ((!fault && r.lost) || devError);   // other symbol echoed, or the device error cancelled the arbitration
    bool retry = lostNow && retriesBefore < cfg.busLostRetries;
    if (wasOwn && !r.done) vp_assert("request-in-flight-stays-current-and-untouched", cur && cnt == 0);
    if (wasOwn && r.done) vp_assert("ended-exchange-completes-the-request", cnt >= 1 && !cur);
    if (wasArb && !fault && !r.lost) vp_assert("won-request-becomes-current", cur && cnt == 0);
    if (retry && !noSignal) vp_assert("bus-lost-retry-requeues-without-notification", cnt == 0 && inNext == 1 && req0->m_busLostRetries == retriesBefore + 1);
    if (lostNow && !retry) {
      vp_assert("lost-arbitration-completes-the-request", cnt >= 1);
      if (cnt == 1) vp_assert("lost-arbitration-result", g_notifyResult[0] == RESULT_ERR_BUS_LOST);
    }
    if (wasArb && fault && !devError && !noSignal) vp_assert("timeout-while-awaiting-the-echo-leaves-the-request-queued", cnt == 0 && inNext == 1);
    if (noSignal) vp_assert("no-signal-completes-every-request", cnt >= 1 && inNext == 0 && !cur);
    // a completion whose callback asks for a restart re-queues the request (and only loss of signal may then end the new life)
    // (the no-signal drain of a QUEUED request ignores the answer of the callback by design: "notify all requests")
    bool drainedOnly = noSignal && cnt == 1 && g_notifyResult[0] == RESULT_ERR_NO_SIGNAL;
    if (cnt >= 1 && g_restart[0] && !drainedOnly) vp_assert("restart-requeues-the-request", (cnt == 1 && inNext == 1) || drained);
    if (cnt >= 1 && !(cnt == 1 && g_restart[0] && inNext == 1)) {
      if (del0) vp_assert("self-deleting-request-deleted-once-and-nowhere-queued", g_deleted[0] == 1 && inNext == 0 && inFin == 0);
      else vp_assert("waited-request-handed-to-the-finished-queue-once", g_deleted[0] == 0 && inNext == 0 && inFin == 1);
    }
#endif
    // bystanders
    if (haveOther && !noSignal) {
      vp_assert("queued-bystander-untouched", g_notifyCount[1] == 0 && g_deleted[1] == 0 && countIn(h.m_nextRequests, req1) == 1 && countIn(h.m_finishedRequests, req1) == 0 && h.m_currentRequest != req1);
    }
    if (haveOther && noSignal) {
      vp_assert("no-signal-completes-every-queued-request-once", g_notifyCount[1] == 1 && g_notifyResult[1] == RESULT_ERR_NO_SIGNAL && countIn(h.m_nextRequests, req1) == 0
                && (del1 ? (g_deleted[1] == 1 && countIn(h.m_finishedRequests, req1) == 0) : (g_deleted[1] == 0 && countIn(h.m_finishedRequests, req1) == 1)));
    }
    if (haveFinished) vp_assert("finished-bystander-untouched", g_notifyCount[2] == 0 && g_deleted[2] == 0 && countIn(h.m_finishedRequests, req2) == 1 && countIn(h.m_nextRequests, req2) == 0);
  }
#endif
  // ---- induction: the successor state is related again (active relation, or the passive relation of C01) ----
  bool inBound = p.mlen <= CAP && p.slen <= CAP && (p.ph != P::DATA || 5 + p.m[4] <= CAP) && (p.ph != P::RDATA || 1 + p.s[0] <= CAP);
  if (inBound) {
    if (r.mayEndSyn && h.m_state == bs_sendSyn) r.endSyn = true;   // after a protocol-level failure the closing SYN is optional
    if (r.arb || r.own || r.endSyn) {
      vp_assert("active-relation-preserved (induction step)", relatedActive(h, r, req0));
      vp_assert("sender-invariant-preserved", senderInv(r));
    } else if (wasArb && fault) {
      // timeout while awaiting the arbitration echo leaves the device waiting for it; covered by the passive harness variant
    } else {
      vp_assert("passive-relation-reached (induction step)", related(h, p, false));
      vp_assert("recogniser-invariant-preserved", refInv(p));
    }
  }
#if MODE == 0
#if !defined(ARBCASE) || ARBCASE == 0
  if (r.own) vp_cover("arbitration-won");
#endif
#if !defined(ARBCASE) || ARBCASE == 1
  if (r.lost) vp_cover("arbitration-lost");
#endif
#if !defined(ARBCASE) || ARBCASE == 2
  if (fault) vp_cover("nothing-read-while-the-echo-is-awaited");
#endif
#elif MODE == 2
  if (p.ph == P::QQ) vp_cover("closing-syn-echoed");
#else
  if (r.done && !r.ok && fault) vp_cover("fault-ends-exchange-with-error");
#if HSTATE >= 9  // the sending states
  if (r.done && !r.ok && !fault && g_nWr == 1 && g_nRd == 1 && g_rd[0] != g_wr[0]) vp_cover("echo-mismatch-ends-exchange-with-error");
#endif
#if HSTATE == 5  // bs_recvCmdAck
  if (r.own && p.ph == P::QQ) vp_cover("command-repeat-after-nak");
#endif
#if HSTATE == 9  // bs_sendCmd
  if (r.own && p.esc) vp_cover("first-half-of-escape-sequence-sent");
  if (r.own && g_nWr == 1 && (g_wr[0] == 0x00 || g_wr[0] == 0x01) && wasEsc) vp_cover("second-half-of-escape-sequence-sent");
#endif
#endif
  vp_observe("state", h.m_state);
  vp_observe("ph", p.ph);
  vp_observe("nwr", g_nWr);
}
