// C15 -- the on-wire part of answer mode, S shape (one inductive step).
// From ANY handler state in which ebusd is answering a received telegram (acknowledge due; sending the response bytes;
// sending the response CRC; waiting for the master's acknowledge) that is related (relation RN below) to a state of the
// independent answer monitor ref::Answerer, ONE handler step (handleSend + handleReceive on the real PlainDevice, every read
// outcome chosen by the solver) writes exactly the symbol the monitor expects (ACK; NN, escaped data, CRC of the escaped
// response; nothing while waiting), repeats the response once after a NAK, reports md_answer exactly when the exchange
// completed, falls silent after an echo mismatch / fault / SYN, and ends in RN again or in the passive relation of C01.
// The entry into RN (CRC symbol of a matching telegram -> getAnswer) is the H_ENTRY variant with one registered answer.
#include "env_bus.h"
static uint8_t tableStep(uint8_t c, uint8_t v) { ebusd::SymbolString::updateCrc(v, &c); return c; }
#ifndef REF_BITSERIAL
#define REF_CRC_STEP(c, v) tableStep(c, v)   // justified by C11/crc_step
#endif
#ifndef NNMAX
#define NNMAX 3
#endif
#define CAP (NNMAX + 5)
#define REF_MAXL CAP
#include "ref_bus.h"
static uint8_t g_rd[4], g_wr[4];
static uint8_t g_nRd = 0, g_nWr = 0, g_wrBeforeRd = 0;
namespace ebusd {
void env_on_read(uint8_t b, bool) { if (g_nRd < 4) g_rd[g_nRd] = b; g_nRd++; }
void env_on_write(uint8_t b) { if (g_nWr < 4) g_wr[g_nWr] = b; g_nWr++; if (g_nRd == 0) g_wrBeforeRd++; }
}
#include "rel_bus.h"
typedef ref::Answerer N;

static bool relatedAnswer(DirectProtocolHandler& h, const N& r) {
  const P& p = r.p;
  PlainDevice* d = static_cast<PlainDevice*>(h.m_device);
  if (!r.ans || !h.m_currentAnswering || h.m_currentRequest != nullptr) return false;
  if (h.m_config.readOnly || !h.m_config.answer) return false;
  if (d->m_arbitrationMaster != SYN || d->m_arbitrationCheck != 0) return false;
  if (h.m_nextRequests.peek() != nullptr) return false;
  size_t cl = h.m_command.size(), rl = h.m_response.size();
  bool cmdEq = cl == p.mlen, ansEq = true, pre = true;
  bool slaveDst = !ref::is_master(p.m[1]);
  if (slaveDst && rl != 1u + r.A[0]) ansEq = false;
  for (int i = 0; i < CAP; i++) {
    if (i < static_cast<int>(p.mlen) && i < static_cast<int>(cl) && h.m_command.data()[i] != p.m[i]) cmdEq = false;
    if (slaveDst && i < static_cast<int>(rl) && h.m_response.data()[i] != r.A[i]) ansEq = false;
    if (i < static_cast<int>(p.slen) && p.s[i] != r.A[i]) pre = false;
  }
  if (!cmdEq || !ansEq || !pre) return false;
  bool escEq = (h.m_escape == ESC) == p.esc && (h.m_escape == 0 || h.m_escape == ESC);
  switch (p.ph) {
    case P::CMDACK: return h.m_state == bs_sendCmdAck && h.m_crcValid && p.crcOk && h.m_escape == 0 && !p.esc && p.slen == 0;
    case P::RNN: case P::RDATA:
      return slaveDst && h.m_state == bs_sendRes && h.m_nextSendPos == p.slen && h.m_crc == p.crc && h.m_repeat == p.resRepeat && h.m_crcValid
        && escOK(h, p.esc, r.A[p.slen < CAP ? p.slen : 0]);
    case P::RCRC:
      return slaveDst && h.m_state == bs_sendResCrc && h.m_crc == p.crc && h.m_repeat == p.resRepeat && h.m_crcValid && escOK(h, p.esc, p.crc);
    case P::RESACK:
      return slaveDst && h.m_state == bs_recvResAck && h.m_crcValid && p.crcOk && h.m_repeat == p.resRepeat && escEq;
    default: return false;
  }
}
static bool answerInv(const N& r) {
  const P& p = r.p;
  if (!refInv(p)) return false;
  if (!r.ans) return true;
  if (r.A[0] > NNMAX) return false;
  if (p.ph < P::CMDACK || p.ph > P::RESACK) return false;
  if (p.ph == P::CMDACK && !p.crcOk) return false;
  if (p.ph == P::RESACK && !p.crcOk) return false;   // own response: the CRC sent is the CRC computed
  return true;
}

#ifdef VP_NATIVE
#include <cstdio>
#include <cstdlib>
static void dump(const char* tag, DirectProtocolHandler& h, const N& r) {
  if (!getenv("VP_DEBUG")) return;
  const P& p = r.p;
  fprintf(stderr, "%s: h.state=%d answering=%d esc=%02x crc=%02x crcValid=%d repeat=%d pos=%zu cmd[%zu] res[%zu]| ans=%d ph=%d esc=%d crc=%02x crcOk=%d resRep=%d mlen=%d slen=%d done=%d ok=%d| nRd=%d rd=%02x nWr=%d wr=%02x\n",
    tag, h.m_state, h.m_currentAnswering, h.m_escape, h.m_crc, h.m_crcValid, h.m_repeat, h.m_nextSendPos, h.m_command.size(), h.m_response.size(),
    r.ans, p.ph, p.esc, p.crc, p.crcOk, p.resRepeat, p.mlen, p.slen, r.done, r.ok, g_nRd, g_rd[0], g_nWr, g_wr[0]);
}
#else
#define dump(a, b, c) ((void)0)
#endif

extern "C" void vp_main() {
  ebus_protocol_config_t cfg = env_config();
  vp_assume(!cfg.readOnly && cfg.answer);
  TapeTransport* tr = new TapeTransport();
  tr->m_allowWriteErrors = false;
  PlainDevice* dev = new PlainDevice(tr);
  static RecListener lst;
  DirectProtocolHandler& h = *new DirectProtocolHandler(cfg, dev, &lst);
  static N r;
  P& p = r.p;
  r.ans = true;
  p.ph = vp_nondet_u8(); p.esc = vp_nondet_bool(); p.cmdRepeat = vp_nondet_bool(); p.resRepeat = vp_nondet_bool();
  p.crcOk = vp_nondet_bool(); p.crc = vp_nondet_u8(); p.need = vp_nondet_u8();
  p.mlen = vp_nondet_u8(); p.slen = vp_nondet_u8();
  vp_assume(p.mlen <= CAP && p.slen <= CAP);
  for (int i = 0; i < CAP; i++) { p.m[i] = vp_nondet_u8(); p.s[i] = vp_nondet_u8(); r.A[i] = vp_nondet_u8(); }
  vp_assume(answerInv(r));
  h.m_state = static_cast<BusState>(HSTATE);   // job parameter: one job per answering state
  h.m_currentAnswering = true;
  uint8_t cm[CAP], rs[CAP];
  uint8_t cl = vp_nondet_u8(), rl = vp_nondet_u8();
  vp_assume(cl <= CAP && rl <= CAP);
  for (int i = 0; i < CAP; i++) { cm[i] = vp_nondet_u8(); rs[i] = vp_nondet_u8(); }
  setVec(h.m_command.m_data, cm, cl);
  setVec(h.m_response.m_data, rs, rl);
  h.m_crc = vp_nondet_u8(); h.m_escape = vp_nondet_u8(); h.m_crcValid = vp_nondet_bool(); h.m_repeat = vp_nondet_bool();
  h.m_nextSendPos = vp_nondet_u8();
  h.m_remainLockCount = vp_nondet_u8();
  h.m_lockCount = vp_nondet_u8();
  h.m_masterCount = vp_nondet_u8();
  h.m_addressConflict = vp_nondet_bool();
  for (int i = 0; i < 256; i++) h.m_seenAddresses[i] = vp_nondet_bool();
  h.m_symbolLatencyMin = static_cast<int>(vp_nondet_u32()); h.m_symbolLatencyMax = static_cast<int>(vp_nondet_u32());
  h.m_lastSynReceiveTime.tv_sec = static_cast<time_t>(vp_nondet_u32());
  { uint32_t ns = vp_nondet_u32(); vp_assume(ns < 1000000000u); h.m_lastSynReceiveTime.tv_nsec = static_cast<long>(ns); }
  h.m_lastReceive = static_cast<time_t>(vp_nondet_u32());
  if (cfg.generateSyn && vp_nondet_bool()) h.m_generateSynInterval = SYN_INTERVAL;
  h.m_listenerState = static_cast<ProtocolState>(vp_nondet_u8() % 6);
  vp_assume(relatedAnswer(h, r));
  uint8_t buffered = vp_nondet_u8();
  vp_assume(buffered <= ENV_MAXCHUNK);
  for (uint8_t i = 0; i < ENV_MAXCHUNK; i++) tr->m_buf[i] = vp_nondet_u8();
  tr->m_len = buffered;
  Stepper st(&h);
  unsigned msgBefore = lst.m_nmsg;
  unsigned faultsBefore = tr->m_nfault;
  uint8_t expW = 0;
  bool hasW = r.expectWrite(&expW);
  bool wasEsc = p.esc;
  g_nRd = g_nWr = g_wrBeforeRd = 0;
  dump("pre ", h, r);
  st.step();
  bool fault = tr->m_nfault != faultsBefore;
  vp_assert("harness: at most one symbol read per answering step", g_nRd <= 1);
  if (fault) r.fault();
  else if (g_nRd == 1) r.sym(g_nWr >= 1, g_wr[0], g_rd[0]);
  dump("post", h, r);
  unsigned newMsg = lst.m_nmsg - msgBefore;
  vp_assert("writes-exactly-the-expected-number-of-symbols", g_nWr == (hasW ? 1 : 0));
  if (hasW && g_nWr == 1) {
    vp_assert("written-symbol-is-ack-or-the-escaped-next-response-byte-or-crc", g_wr[0] == expW);
    vp_assert("symbol-is-written-before-its-echo-is-read", g_wrBeforeRd == 1);
  }
  vp_assert("reported-as-answered-iff-the-exchange-completed", newMsg == ((r.done && r.ok) ? 1u : 0u));
  if (newMsg == 1) {
    const RecMsg& q = lst.m_msg[0];
    vp_assert("reported-direction-is-answer", q.dir == md_answer);
    bool same = q.mlen == p.mlen;
    for (uint8_t j = 0; j < CAP; j++) if (j < p.mlen && j < q.mlen && q.m[j] != p.m[j]) same = false;
    if (!ref::is_master(p.m[1])) {
      if (q.slen != 1 + r.A[0]) same = false;
      for (uint8_t j = 0; j < CAP; j++) if (j < q.slen && q.s[j] != r.A[j]) same = false;
    }
    vp_assert("reported-telegram-is-the-received-command-and-the-registered-answer", same);
#if HSTATE == 12
    vp_cover("master-telegram-acknowledged");
#elif HSTATE == 8
    if (p.resRepeat) vp_cover("answer-completed-after-one-repetition"); else vp_cover("answer-completed");
#endif
  }
  if (r.done && !r.ok) vp_assert("silent-after-the-exchange-broke-off", h.m_state <= bs_recvResAck && (!h.m_currentAnswering || h.m_state == bs_noSignal));
  bool inBound = p.mlen <= CAP && p.slen <= CAP;
  if (inBound) {
    if (r.ans) {
      vp_assert("answer-relation-preserved (induction step)", relatedAnswer(h, r));
      vp_assert("answer-invariant-preserved", answerInv(r));
    } else {
      vp_assert("passive-relation-reached (induction step)", related(h, p, true));
      vp_assert("recogniser-invariant-preserved", refInv(p));
    }
  }
#if HSTATE == 8
  if (r.ans && p.ph == P::RNN) vp_cover("response-repeated-after-nak");
#elif HSTATE == 13
  if (r.ans && wasEsc && g_nWr == 1) vp_cover("second-half-of-escape-sequence-sent");
#endif
  if (r.done && !r.ok && fault) vp_cover("fault-ends-the-answer");
  vp_observe("state", h.m_state);
  vp_observe("ph", p.ph);
  vp_observe("nwr", g_nWr);
}
