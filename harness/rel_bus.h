// Relations between the real handler state and the reference monitors (ref_bus.h), shared by the inductive step harnesses
// (C01_step.cpp: passive reception; C02_step.cpp: own exchange, request bookkeeping, entitlement to write).
#ifndef REL_BUS_H
#define REL_BUS_H
using namespace ebusd;
typedef ref::Parser P;

static void setVec(std::vector<uint8_t>& v, const uint8_t* src, uint8_t n) {
  v.reserve(CAP + 2);
  for (int i = 0; i < CAP; i++) v.push_back(src[i]);
  v._M_impl._M_finish = v._M_impl._M_start + n;   // size n, capacity CAP+2 (capacity is unobservable)
}

// the relation R between handler state and recogniser state
static bool related(DirectProtocolHandler& h, const P& r, bool idleQueues = true, bool anyDevice = false) {
  // the answering flag is reset on entry to skip/ready only; it can be left set in noSignal (after a timeout while answering),
  // where nothing reads it before the next symbol resets it
  if (h.m_currentRequest != nullptr || (h.m_currentAnswering && h.m_state != bs_noSignal)) return false;
  // passive operation never touches the request queues or the device's arbitration state
  if (idleQueues && (h.m_nextRequests.peek() != nullptr || h.m_finishedRequests.peek() != nullptr)) return false;
  {
    PlainDevice* d = static_cast<PlainDevice*>(h.m_device);
    if (!anyDevice && (d->m_arbitrationMaster != SYN || d->m_arbitrationCheck != 0)) return false;
  }
  size_t cl = h.m_command.size(), rl = h.m_response.size();
  bool cmdEq = cl == r.mlen, resEq = rl == r.slen;
  for (int i = 0; i < CAP; i++) {
    if (i < static_cast<int>(r.mlen) && i < static_cast<int>(cl) && h.m_command.data()[i] != r.m[i]) cmdEq = false;
    if (i < static_cast<int>(r.slen) && i < static_cast<int>(rl) && h.m_response.data()[i] != r.s[i]) resEq = false;
  }
  bool escEq = (h.m_escape == ESC) == r.esc && (h.m_escape == 0 || h.m_escape == ESC);
  // the response buffer is emptied on every entry to bs_skip/bs_ready (setState) and only filled in bs_recvRes
  if (r.ph >= P::QQ && r.ph <= P::CMDACK && rl != 0) return false;
  switch (r.ph) {
    case P::IDLE: return h.m_state == bs_noSignal || h.m_state == bs_skip;
    case P::QQ:
      if (!r.cmdRepeat) return h.m_state == bs_ready && cl == 0 && h.m_crc == r.crc && escEq;
      return h.m_state == bs_recvCmd && cl == 0 && h.m_repeat && h.m_crc == r.crc && escEq;
    case P::ZZ: case P::PB: case P::SB: case P::NN: case P::DATA:
      return h.m_state == bs_recvCmd && cmdEq && h.m_crc == r.crc && h.m_repeat == r.cmdRepeat && escEq;
    case P::CRC: return h.m_state == bs_recvCmdCrc && cmdEq && h.m_crc == r.crc && h.m_repeat == r.cmdRepeat && escEq;
    case P::CMDACK: return h.m_state == bs_recvCmdAck && cmdEq && h.m_crcValid == r.crcOk && h.m_repeat == r.cmdRepeat && escEq;
    case P::RNN: case P::RDATA:
      return h.m_state == bs_recvRes && cmdEq && resEq && h.m_crc == r.crc && h.m_repeat == r.resRepeat && escEq;
    case P::RCRC: return h.m_state == bs_recvResCrc && cmdEq && resEq && h.m_crc == r.crc && h.m_repeat == r.resRepeat && escEq;
    case P::RESACK: return h.m_state == bs_recvResAck && cmdEq && resEq && h.m_crcValid == r.crcOk && h.m_repeat == r.resRepeat && escEq;
  }
  return false;
}

// recogniser states that a byte stream can produce (representation invariant of ref::Parser)
static bool refInv(const P& r) {
  if (r.ph > P::RESACK) return false;
  bool hdr = r.mlen >= 1 && ref::is_master(r.m[0]) && (r.mlen < 2 || (ref::valid_addr(r.m[1]) && r.m[1] != r.m[0]));
  bool full = hdr && r.mlen >= 5 && r.mlen == 5 + r.m[4] && r.mlen <= CAP;
  bool notBc = r.m[1] != 0xFE;
  if (r.ph >= P::QQ && r.ph <= P::CMDACK && r.slen != 0) return false;   // syn() empties the slave part, only RNN.. fills it
  switch (r.ph) {
    case P::IDLE: return true;
    case P::QQ: return r.mlen == 0 && r.crc == 0 ? true : (r.mlen == 0 && r.esc);  // after ESC the crc already covers it
    case P::ZZ: return hdr && r.mlen == 1;
    case P::PB: return hdr && r.mlen == 2;
    case P::SB: return hdr && r.mlen == 3;
    case P::NN: return hdr && r.mlen == 4;
    case P::DATA: return hdr && r.mlen >= 5 && r.mlen < 5 + r.m[4] && r.need == 5 + r.m[4] - r.mlen && 5 + r.m[4] <= CAP;
    case P::CRC: return full;
    case P::CMDACK: return full && notBc && (r.crcOk || !r.cmdRepeat);
    case P::RNN: return full && notBc && !ref::is_master(r.m[1]) && r.slen == 0;
    case P::RDATA: return full && notBc && !ref::is_master(r.m[1]) && r.slen >= 1 && r.slen < 1 + r.s[0] && r.need == 1 + r.s[0] - r.slen && 1 + r.s[0] <= CAP;
    case P::RCRC: return full && notBc && !ref::is_master(r.m[1]) && r.slen >= 1 && r.slen == 1 + r.s[0] && r.slen <= CAP;
    case P::RESACK: return full && notBc && !ref::is_master(r.m[1]) && r.slen >= 1 && r.slen == 1 + r.s[0] && r.slen <= CAP && (r.crcOk || !r.resRepeat);
  }
  return false;
}

typedef ref::Sender S;

// ---- request objects with ghost bookkeeping kept outside the object (it may be deleted) ----
#define MAXREQ 3
struct SlaveBuf { uint8_t b[CAP]; };
static uint8_t g_notifyCount[MAXREQ], g_deleted[MAXREQ], g_slaveLen[MAXREQ];
static SlaveBuf g_slave[MAXREQ];
static int g_notifyResult[MAXREQ];
static bool g_restart[MAXREQ];
class RecRequest : public BusRequest {
 public:
  RecRequest(uint8_t id, bool del) : BusRequest(m_own, del), m_id(id) {}
  ~RecRequest() override { g_deleted[m_id]++; }
  bool notify(result_t result, const SlaveSymbolString& slave) override {
    g_notifyCount[m_id]++;
    g_notifyResult[m_id] = result;
    size_t n = slave.size();
    g_slaveLen[m_id] = static_cast<uint8_t>(n < 255 ? n : 255);
    // the harness reserves CAP+2 bytes for every SlaveSymbolString it hands to the handler: one fixed-size block copy
    g_slave[m_id] = *reinterpret_cast<const SlaveBuf*>(slave.data());
    return g_restart[m_id];
  }
  MasterSymbolString m_own;
  uint8_t m_id;
};

static unsigned countIn(Queue<BusRequest*>& q, BusRequest* r) {
  unsigned n = 0, k = 0;
  for (auto it = q.m_queue.begin(); it != q.m_queue.end() && k < MAXREQ + 1; ++it, ++k) if (*it == r) n++;
  return n;
}

static bool escOK(DirectProtocolHandler& h, bool esc, uint8_t u) {
  return esc ? (h.m_escape == u && (u == 0xA9 || u == 0xAA)) : h.m_escape == 0;
}

// request content is the monitor's M
static bool reqIsM(BusRequest* q, const S& r) {
  const MasterSymbolString& m = q->getMaster();
  size_t total = 5u + r.M[4];
  if (m.size() != total) return false;
  bool eq = true;
  for (int i = 0; i < CAP; i++) if (static_cast<size_t>(i) < total && m.data()[i] != r.M[i]) eq = false;
  return eq;
}

// RA: relation between a handler with an own exchange in progress and the sender monitor
static bool relatedActive(DirectProtocolHandler& h, const S& r, BusRequest* req) {
  const P& p = r.p;
  PlainDevice* d = static_cast<PlainDevice*>(h.m_device);
  if (h.m_currentAnswering) return false;
  if (h.m_config.readOnly) return false;   // addRequest refuses requests in read-only mode
  size_t cl = h.m_command.size(), rl = h.m_response.size();
  if (cl != 0) return false;               // the command buffer is not used while sending an own request
  if (r.arb) {
    return h.m_state == bs_ready && h.m_currentRequest == nullptr && h.m_nextRequests.peek() == req
      && d->m_arbitrationMaster == r.M[0] && d->m_arbitrationCheck == 1
      && p.ph == P::QQ && !p.cmdRepeat && !p.esc && p.crc == 0 && h.m_crc == 0 && h.m_escape == 0 && rl == 0;
  }
  if (d->m_arbitrationMaster != SYN || d->m_arbitrationCheck != 0) return false;
  if (r.endSyn) return h.m_state == bs_sendSyn && h.m_currentRequest == nullptr && p.ph == P::IDLE;
  if (!r.own) return false;
  if (h.m_currentRequest != req) return false;
  bool pre = true, resEq = rl == p.slen;
  for (int i = 0; i < CAP; i++) {
    if (i < static_cast<int>(p.mlen) && p.m[i] != r.M[i]) pre = false;
    if (i < static_cast<int>(p.slen) && i < static_cast<int>(rl) && h.m_response.data()[i] != p.s[i]) resEq = false;
  }
  if (!pre) return false;
  bool escEq = (h.m_escape == ESC) == p.esc && (h.m_escape == 0 || h.m_escape == ESC);
  if (p.ph >= P::QQ && p.ph <= P::CMDACK && rl != 0) return false;
  switch (p.ph) {
    case P::QQ:
      return p.cmdRepeat && h.m_state == bs_sendCmd && h.m_nextSendPos == 0 && h.m_repeat && h.m_crc == p.crc && escOK(h, p.esc, r.M[0]);
    case P::ZZ: case P::PB: case P::SB: case P::NN: case P::DATA:
      return h.m_state == bs_sendCmd && h.m_nextSendPos == p.mlen && h.m_repeat == p.cmdRepeat && h.m_crc == p.crc
        && escOK(h, p.esc, r.M[p.mlen < CAP ? p.mlen : 0]);
    case P::CRC:
      return h.m_state == bs_sendCmdCrc && h.m_crc == p.crc && h.m_repeat == p.cmdRepeat && escOK(h, p.esc, p.crc);
    case P::CMDACK:
      return h.m_state == bs_recvCmdAck && h.m_crcValid && p.crcOk && h.m_repeat == p.cmdRepeat && escEq;
    case P::RNN: case P::RDATA:
      return h.m_state == bs_recvRes && resEq && h.m_crc == p.crc && h.m_repeat == p.resRepeat && escEq;
    case P::RCRC:
      return h.m_state == bs_recvResCrc && resEq && h.m_crc == p.crc && h.m_repeat == p.resRepeat && escEq;
    case P::RESACK:
      return h.m_state == bs_sendResAck && resEq && h.m_crcValid == p.crcOk && h.m_repeat == p.resRepeat && h.m_escape == 0 && !p.esc;
    default: return false;
  }
}

// states of the monitor that an exchange can produce
static bool senderInv(const S& r) {
  const P& p = r.p;
  if ((r.arb ? 1 : 0) + (r.own ? 1 : 0) + (r.endSyn ? 1 : 0) != 1) return false;
  // well-formed request: complete master part of a master address to a valid other address, NN within the bound
  if (!(ref::is_master(r.M[0]) && ref::valid_addr(r.M[1]) && r.M[1] != r.M[0] && r.M[4] <= NNMAX)) return false;
  if (!refInv(p)) return false;
  if (r.endSyn) return p.ph == P::IDLE;
  if (r.arb) return p.ph == P::QQ && !p.cmdRepeat && !p.esc && p.crc == 0;
  if (p.ph == P::IDLE) return false;
  if (p.ph == P::QQ && !p.cmdRepeat) return false;
  if (p.ph == P::CMDACK && !p.crcOk) return false;
  // the escape flag during own sending is only set when the symbol being sent needs escaping
  return true;
}

#endif
