// Relations between the real handler state and the reference monitors (ref_bus.h), shared by the inductive step harnesses
// (C01_step.cpp: passive reception; C02_step.cpp: own exchange, request bookkeeping, entitlement to write).
#ifndef REL_BUS_H
#define REL_BUS_H
using namespace ebusd;
typedef ref::Parser P;

static void setVec(std::vector<uint8_t>& v, const uint8_t* src, uint8_t n) {
  v.reserve(CAP + 2);
  for (int i = 0; i < CAP; i++) v.push_back(src[i]);
  v._M_impl._M_finish = v._M_impl._M_start + n;   // size n, capacity CAP+2 (capacity is unobservable)
}

// the relation R between handler state and recogniser state
static bool related(DirectProtocolHandler& h, const P& r, bool idleQueues = true) {
  if (h.m_currentRequest != nullptr || h.m_currentAnswering) return false;
  // passive operation never touches the request queues or the device's arbitration state
  if (idleQueues && (h.m_nextRequests.peek() != nullptr || h.m_finishedRequests.peek() != nullptr)) return false;
  {
    PlainDevice* d = static_cast<PlainDevice*>(h.m_device);
    if (d->m_arbitrationMaster != SYN || d->m_arbitrationCheck != 0) return false;
  }
  size_t cl = h.m_command.size(), rl = h.m_response.size();
  bool cmdEq = cl == r.mlen, resEq = rl == r.slen;
  for (int i = 0; i < CAP; i++) {
    if (i < static_cast<int>(r.mlen) && i < static_cast<int>(cl) && h.m_command.data()[i] != r.m[i]) cmdEq = false;
    if (i < static_cast<int>(r.slen) && i < static_cast<int>(rl) && h.m_response.data()[i] != r.s[i]) resEq = false;
  }
  bool escEq = (h.m_escape == ESC) == r.esc && (h.m_escape == 0 || h.m_escape == ESC);
  // the response buffer is emptied on every entry to bs_skip/bs_ready (setState) and only filled in bs_recvRes
  if (r.ph >= P::QQ && r.ph <= P::CMDACK && rl != 0) return false;
  switch (r.ph) {
    case P::IDLE: return h.m_state == bs_noSignal || h.m_state == bs_skip;
    case P::QQ:
      if (!r.cmdRepeat) return h.m_state == bs_ready && cl == 0 && h.m_crc == r.crc && escEq;
      return h.m_state == bs_recvCmd && cl == 0 && h.m_repeat && h.m_crc == r.crc && escEq;
    case P::ZZ: case P::PB: case P::SB: case P::NN: case P::DATA:
      return h.m_state == bs_recvCmd && cmdEq && h.m_crc == r.crc && h.m_repeat == r.cmdRepeat && escEq;
    case P::CRC: return h.m_state == bs_recvCmdCrc && cmdEq && h.m_crc == r.crc && h.m_repeat == r.cmdRepeat && escEq;
    case P::CMDACK: return h.m_state == bs_recvCmdAck && cmdEq && h.m_crcValid == r.crcOk && h.m_repeat == r.cmdRepeat && escEq;
    case P::RNN: case P::RDATA:
      return h.m_state == bs_recvRes && cmdEq && resEq && h.m_crc == r.crc && h.m_repeat == r.resRepeat && escEq;
    case P::RCRC: return h.m_state == bs_recvResCrc && cmdEq && resEq && h.m_crc == r.crc && h.m_repeat == r.resRepeat && escEq;
    case P::RESACK: return h.m_state == bs_recvResAck && cmdEq && resEq && h.m_crcValid == r.crcOk && h.m_repeat == r.resRepeat && escEq;
  }
  return false;
}

// recogniser states that a byte stream can produce (representation invariant of ref::Parser)
static bool refInv(const P& r) {
  if (r.ph > P::RESACK) return false;
  bool hdr = r.mlen >= 1 && ref::is_master(r.m[0]) && (r.mlen < 2 || (ref::valid_addr(r.m[1]) && r.m[1] != r.m[0]));
  bool full = hdr && r.mlen >= 5 && r.mlen == 5 + r.m[4] && r.mlen <= CAP;
  bool notBc = r.m[1] != 0xFE;
  if (r.ph >= P::QQ && r.ph <= P::CMDACK && r.slen != 0) return false;   // syn() empties the slave part, only RNN.. fills it
  switch (r.ph) {
    case P::IDLE: return true;
    case P::QQ: return r.mlen == 0 && r.crc == 0 ? true : (r.mlen == 0 && r.esc);  // after ESC the crc already covers it
    case P::ZZ: return hdr && r.mlen == 1;
    case P::PB: return hdr && r.mlen == 2;
    case P::SB: return hdr && r.mlen == 3;
    case P::NN: return hdr && r.mlen == 4;
    case P::DATA: return hdr && r.mlen >= 5 && r.mlen < 5 + r.m[4] && r.need == 5 + r.m[4] - r.mlen && 5 + r.m[4] <= CAP;
    case P::CRC: return full;
    case P::CMDACK: return full && notBc && (r.crcOk || !r.cmdRepeat);
    case P::RNN: return full && notBc && !ref::is_master(r.m[1]) && r.slen == 0;
    case P::RDATA: return full && notBc && !ref::is_master(r.m[1]) && r.slen >= 1 && r.slen < 1 + r.s[0] && r.need == 1 + r.s[0] - r.slen && 1 + r.s[0] <= CAP;
    case P::RCRC: return full && notBc && !ref::is_master(r.m[1]) && r.slen >= 1 && r.slen == 1 + r.s[0] && r.slen <= CAP;
    case P::RESACK: return full && notBc && !ref::is_master(r.m[1]) && r.slen >= 1 && r.slen == 1 + r.s[0] && r.slen <= CAP && (r.crcOk || !r.resRepeat);
  }
  return false;
}

#endif
