// C05 / C06 / C10 -- raw-level numeric codec kernels on the real NumberDataType, one type per job:
//   readRawValue        == independent decode of the bytes (endianness, BCD/HCD digits, bit range, replacement)   [C05]
//   getFloatFromRawValue == the value the type definition specifies (sign, divisor), null for the replacement       [C05]
//   writeRawValue(readRawValue(bytes)) reproduces the field's bytes / bits and touches nothing else                  [C06, C10]
// DESIGN.md section 4/C05 "K c05_num", C06 "K c06_num", C10. Text rendering (ostream) is not part of this harness.
#include "vp.h"
#include <math.h>
#include "lib/utils/log.h"
namespace ebusd {
bool needsLog(const LogFacility, const LogLevel) { return false; }
void logWrite(const LogFacility, const LogLevel, const char*, ...) {}
void logWrite(const char*, const LogLevel, const char*, ...) {}
}
#include "lib/ebus/datatype.h"
using namespace ebusd;
#ifndef T_BITS
#error "type parameters missing"
#endif
#ifndef T_FIRSTBIT
#define T_FIRSTBIT (-1)
#endif
#define ISBIT ((T_BITS) < 8)
#define LEN (ISBIT ? 1 : (T_BITS) / 8)
#define TOTAL (LEN + 2)

static const NumberDataType& theType() {
#if T_FIRSTBIT >= 0
  static const NumberDataType t("TST", T_BITS, T_FLAGS, T_REPL, static_cast<int16_t>(T_FIRSTBIT), T_DIV);
#else
  static const NumberDataType t("TST", T_BITS, T_FLAGS, T_REPL, T_MIN, T_MAX, T_DIV);
#endif
  return t;
}

extern "C" void vp_main() {
  const NumberDataType& t = theType();
  const bool req = ((T_FLAGS) & REQ) != 0, sig = ((T_FLAGS) & SIG) != 0, rev = ((T_FLAGS) & REV) != 0;
  const bool bcd = ((T_FLAGS) & BCD) != 0, hcd = ((T_FLAGS) & HCD) != 0;
  uint8_t b[TOTAL];
  for (int i = 0; i < TOTAL; i++) b[i] = vp_nondet_u8();
  uint8_t off = vp_nondet_u8() % 3;   // 0..2 = TOTAL-LEN: the field may sit anywhere in the data
  SlaveSymbolString in;
  in.m_data.reserve(TOTAL + 2);
  in.push_back(TOTAL);
  for (int i = 0; i < TOTAL; i++) in.push_back(b[i]);
  unsigned int raw = 0xdeadbeef;
  result_t r = t.readRawValue(off, LEN, in, &raw);
  // ---- reference decode of the LEN bytes at off ----
  uint32_t ref = 0; bool refErr = false, refNull = false, mixed = false;
  if (bcd) {
    uint32_t mul = 1;
    bool seenRepl = false;
    for (int i = 0; i < LEN; i++) {
      uint8_t s = b[off + (rev ? LEN - 1 - i : i)];
      bool isRepl = !req && s == ((T_REPL) & 0xff);
      uint8_t dec;
      bool bad;
      if (hcd) { bad = s > 0x63; dec = s; }
      else { bad = (s & 0xf0) > 0x90 || (s & 0x0f) > 0x09; dec = static_cast<uint8_t>((s >> 4) * 10 + (s & 0x0f)); }
      if (isRepl && !seenRepl && !refErr) { if (i > 0) mixed = true; seenRepl = true; }
      if (!seenRepl && bad) refErr = true;
      if (!seenRepl && !refErr) ref += dec * mul;
      mul *= 100;
    }
    if (seenRepl && !refErr) { refNull = true; ref = (T_REPL); }
  } else {
    for (int i = 0; i < LEN; i++) ref |= static_cast<uint32_t>(b[off + (rev ? LEN - 1 - i : i)]) << (8 * i);
    if (T_FIRSTBIT > 0) ref >>= (T_FIRSTBIT > 0 ? T_FIRSTBIT : 0);
    if (ISBIT) ref &= (1u << (T_BITS)) - 1;
    refNull = !req && ref == (T_REPL);
  }
  vp_assert("raw-decode-error-iff-invalid-digits", (r != RESULT_OK) == refErr);
  if (r != RESULT_OK) { vp_assert("invalid-digits-reported-as-out-of-range", r == RESULT_ERR_OUT_OF_RANGE); if (bcd) vp_cover("invalid-bcd-rejected"); return; }
  vp_assert("raw-value-equals-reference-decode", raw == ref);
  vp_observe("raw", raw);
  // ---- numeric value ----
  float f = 12345.0f;
  result_t fr = t.getFloatFromRawValue(raw, &f);
  int64_t sv = raw;
  if (sig) sv = (T_BITS) == 32 ? static_cast<int64_t>(static_cast<int32_t>(raw))
                               : ((raw & (1u << ((T_BITS) - 1))) ? static_cast<int64_t>(raw) - (static_cast<int64_t>(1) << (T_BITS)) : raw);
  int64_t lo, hi;
  {
    uint32_t mn = t.m_minValue, mx = t.m_maxValue;
    lo = mn; hi = mx;
    if (sig) {
      lo = (T_BITS) == 32 ? static_cast<int64_t>(static_cast<int32_t>(mn)) : ((mn & (1u << ((T_BITS) - 1))) ? static_cast<int64_t>(mn) - (static_cast<int64_t>(1) << (T_BITS)) : mn);
      hi = (T_BITS) == 32 ? static_cast<int64_t>(static_cast<int32_t>(mx)) : ((mx & (1u << ((T_BITS) - 1))) ? static_cast<int64_t>(mx) - (static_cast<int64_t>(1) << (T_BITS)) : mx);
    }
  }
  bool isNull = !req && raw == (T_REPL);
  if (isNull) {
    vp_assert("replacement-pattern-decodes-to-null", fr == RESULT_EMPTY);
    vp_cover("null-value");
  } else if (sv < lo || sv > hi) {
    vp_assert("value-outside-type-range-is-rejected", fr == RESULT_ERR_OUT_OF_RANGE);
  } else {
    vp_assert("in-range-value-decodes", fr == RESULT_OK);
    if (fr == RESULT_OK) {
      // exact rational value sv/div (div>0) or sv*|div| (div<0); float arithmetic of ebusd is exact below 2^24
      double exact = (T_DIV) > 0 ? static_cast<double>(sv) / static_cast<double>(T_DIV) : static_cast<double>(sv) * static_cast<double>(-(T_DIV));
      double err = static_cast<double>(f) - exact;
      double tol = (exact < 0 ? -exact : exact) * 1.2e-7 + 1e-30;
      if (sv < (1 << 24) && sv > -(1 << 24)) {
        vp_assert("decoded-number-equals-the-specified-value", err <= tol && err >= -tol);
        if ((T_DIV) == 1) vp_assert("integer-types-decode-exactly", static_cast<double>(f) == static_cast<double>(sv));
      }
      vp_cover("value-decoded");
    }
  }
  // ---- encode inverts decode on the bits the field owns, and touches nothing else ----
  if (mixed) return;   // partly-replacement BCD strings decode to null; their re-encoding is the canonical replacement
  uint8_t pre[TOTAL];
  for (int i = 0; i < TOTAL; i++) pre[i] = vp_nondet_u8();
  uint8_t mask = 0xff;
  if (ISBIT) mask = static_cast<uint8_t>(((1u << (T_BITS)) - 1) << (T_FIRSTBIT > 0 ? T_FIRSTBIT : 0));
  if (ISBIT) pre[off] &= static_cast<uint8_t>(~mask);   // bit fields are OR-ed into a byte whose owned bits are still clear
  SlaveSymbolString out;
  out.m_data.reserve(TOTAL + 2);
  out.push_back(TOTAL);
  for (int i = 0; i < TOTAL; i++) out.push_back(pre[i]);
  size_t used = 99;
  result_t wr = t.writeRawValue(raw, off, LEN, &out, &used);
  vp_assert("encode-of-decoded-raw-succeeds", wr == RESULT_OK && used == LEN);
  bool ownOk = true, restOk = out.size() == TOTAL + 1;
  for (int i = 0; i < TOTAL; i++) {
    uint8_t o = out.data()[1 + i];
    bool owned = i >= off && i < off + LEN;
    if (owned) {
      uint8_t want = refNull && bcd ? static_cast<uint8_t>((T_REPL) & 0xff) : b[i];
      if ((o & mask) != (want & mask)) ownOk = false;
      if (ISBIT && (o & ~mask) != (pre[i] & ~mask)) restOk = false;
    } else if (o != pre[i]) restOk = false;
  }
  vp_assert("encode-reproduces-the-owned-bits", ownOk);
  vp_assert("encode-changes-only-owned-bits", restOk);
}
