// C16 -- access level check kernel: real Message::checkLevel(level, levels) (used by hasLevel on the read, write, poll and
// data-sink paths) against token membership. DESIGN.md section 4/C16 "K c16_checklevel". String lengths are job parameters.
#include "vp.h"
#include "lib/utils/log.h"
namespace ebusd {
bool needsLog(const LogFacility, const LogLevel) { return false; }
void logWrite(const LogFacility, const LogLevel, const char*, ...) {}
void logWrite(const char*, const LogLevel, const char*, ...) {}
}
#include "lib/ebus/message.h"
using namespace ebusd;
#ifndef LA
#define LA 2
#endif
#ifndef LB
#define LB 4
#endif
static const char ALPHA[4] = {'a', 'b', ';', '*'};
extern "C" void vp_main() {
  char lv[LA + 1], ls[LB + 1];
  for (int i = 0; i < LA; i++) { lv[i] = ALPHA[vp_nondet_u8() % 2]; }       // a level name: letters only
  for (int i = 0; i < LB; i++) { ls[i] = ALPHA[vp_nondet_u8() % 4]; }       // the granted list: names, separators, '*'
  lv[LA] = 0; ls[LB] = 0;
  // reference: the list grants the level iff it is exactly "*" or one of its ';'-separated tokens equals the level;
  // an empty level needs no grant, an empty list grants nothing else (fixed-bound loops only)
  bool ref;
  if (LA == 0) ref = true;
  else if (LB == 0) ref = false;
  else if (LB == 1 && ls[0] == '*') ref = true;
  else {
    ref = false;
    for (int start = 0; start + LA <= LB; start++) {
      bool atTokenStart = start == 0 || ls[start - 1] == ';';
      bool atTokenEnd = start + LA == LB || ls[start + LA] == ';';
      bool eq = true;
      for (int k = 0; k < LA; k++) if (ls[start + k] != lv[k]) eq = false;
      if (atTokenStart && atTokenEnd && eq) ref = true;
    }
  }
  bool got = Message::checkLevel(std::string(lv, LA), std::string(ls, LB));
  vp_assert("level-granted-iff-exact-token-or-star", got == ref);
  if (got && LA > 0 && !(LB == 1 && ls[0] == '*')) vp_cover("granted-by-token");
  if (!got) vp_cover("denied");
  vp_observe("got", got);
}
