# job registry: per property, per tier the list of (harness, parameterisation) = CBMC obligation sets
from vplib.pipeline import Job

def jobs(prop, tier):
    T = tier == 'thorough'
    J = []
    if prop == 'C11':
        J.append(Job('C11', 'crc_step', 'C11_kernels.cpp', defs={'H_CRC_STEP': None}, unwind=9, shape='K',
                     bounds='all 65536 (crc,symbol) pairs; loop-free table step vs 8-round bit-serial division'))
        nd = 5 if T else 3
        J.append(Job('C11', 'crc_fold_direct', 'C11_kernels.cpp', defs={'H_CRC_FOLD': None, 'N': nd, 'DIRECT': None}, unwind=max(nd + 2, 9), shape='K',
                     solver='cadical', timeout=900 if T else 200,
                     bounds='symbol strings of length 0..%d, all byte values, against the bit-serial division directly' % nd))
        n = 16 if T else 8
        J.append(Job('C11', 'crc_fold', 'C11_kernels.cpp', defs={'H_CRC_FOLD': None, 'N': n}, unwind=n + 2, shape='K',
                     solver='z3', timeout=1500 if T else 200,
                     bounds='symbol strings of length 0..%d, all byte values (SMT back end z3: table lookups as array selects)' % n))
        for nh in range(1, (6 if T else 4)):
            J.append(Job('C11', 'hex%d' % nh, 'C11_kernels.cpp', defs={'H_HEX': None, 'N': nh}, unwind=2 * nh + 3, shape='K',
                         models=['string', 'libc'], solver='cadical', timeout=900 if T else 200,
                         bounds='all escaped sequences of exactly %d bytes (all values), both hex digit cases per digit' % nh))
        J.append(Job('C11', 'addr', 'C11_kernels.cpp', defs={'H_ADDR': None}, unwind=2, shape='K',
                     bounds='all 256 addresses x all 256 second addresses'))
    if prop == 'C01':
        BUS = dict(link=['lib/ebus/symbol.cpp', 'lib/ebus/device_trans.cpp', 'lib/ebus/result.cpp', 'lib/utils/thread.cpp'],
                   models=['string', 'libc', 'sstream', 'posix', 'containers'], solver='cadical')
        k = 16 if T else 10
        J.append(Job('C01', 'run_plain', 'C01_passive.cpp', defs={'K': k}, unwind=3, shape='R', timeout=2400 if T else 300,
                     unwindset={}, bounds='%d handler steps from the real initial state, every read result symbolic' % k, **BUS))
    return J

COMMON_ASSUME = ['clang-14 -O1 lowering + ll2c translation (validated per run against the native build on witness and random tapes)',
                 'operator new never fails', 'CBMC 6.11 + SAT/SMT back end', 'models/*.c for libstdc++/libc externals (DESIGN 2.3)']
BUS_NOTE = ('Trusted: clang-14 lowering, ll2c, models (string, sstream, posix, cxxabi, vecgrow), CBMC + CaDiCaL. Environment: TapeTransport '
            '(every read result = timeout | error | chunk of 1..2 arbitrary bytes), clock = arbitrary non-decreasing instants, logging off. '
            'DirectProtocolHandler::run() itself (thread start, 5 s reopen wait) is not encoded; its loop body is re-stated in env_bus.h Stepper.')
META = {
 'C01': dict(
   claimed=False, na_reason='harnesses C01_passive.cpp / C01_step.cpp exist but no bound profile finishes under the cap yet (CBMC symex on the translated handler: K=1 57 s, K=2 no verdict in 400 s); not claimed until a profile passes',
   level_text='Bounded model checking of the real DirectProtocolHandler + PlainDevice: K handler steps from the real initial state, every byte, chunking, timeout and read error chosen by the solver; after every step the reported messages are compared with an independent incremental eBUS telegram recogniser. Holds for all streams within the step bound.',
   level_note=BUS_NOTE,
   outside_claim='streams longer than K symbols (so NN > K-7), the enhanced device variant, durations (timeouts are symbolic outcomes, not times), run() reopen loop',
   assumptions=COMMON_ASSUME,
 ),
 'C11': dict(
   outside_claim='CRC strings longer than the fold bound (covered by the step lemma + fold induction argument, not by a query); '
                 'hex parsing of strings longer than the bound',
   level_text='Bounded model checking of the real symbol.cpp kernels: the CRC table step is decided for all 65536 (crc,symbol) pairs against bit-serial polynomial division, the string CRC is decided as a fold of that step over the escaped bytes for all strings up to the bound (step lemma + fold lemma = any length by induction), all 256x256 address pairs for the address-class bijections, and all escaped hex strings up to the bound for parse/unescape. Exhaustive within the bounds by solver verdict, not sampling.',
   level_note='Trusted: clang-14 -O1 lowering, ll2c (cross-checked each run against the native build on witness and random tapes), models/string.c+libc.c (std::string members, strtoul), CBMC and its SAT/SMT back ends. Outside: fold/hex lengths above the bound as a direct query.',
   assumptions=['clang-14 -O1 lowering + ll2c translation (validated per run against the native build on witness and random tapes)',
                'operator new never fails', 'CBMC 6.11 + SAT back end'],
 ),
}
