# job registry: per property, per tier the list of (harness, parameterisation) = CBMC obligation sets
from vplib.pipeline import Job
PORTFOLIO = ('cadical', 'minisat', 'kissat')   # started in parallel per query, first verdict wins (SAT solver time varies 10x)

# built-in numeric base types, transcribed from the documentation comments in DataTypeList::DataTypeList (datatype.cpp):
# (id, bits, flags, replacement, min, max, divisor); flags: BCD=2 REV=4 SIG=8 REQ=0x40 HCD=0x80
NUMTYPES = [
  ('UCH', 8, 0, 0xff, 0, 0xfe, 1), ('U1L', 8, 0x40, 0, 0, 0xff, 1), ('SCH', 8, 8, 0x80, 0x81, 0x7f, 1), ('S1L', 8, 0x48, 0, 0x80, 0x7f, 1),
  ('D1C', 8, 0, 0xff, 0, 0xc8, 2), ('D2B', 16, 8, 0x8000, 0x8001, 0x7fff, 256), ('D2C', 16, 8, 0x8000, 0x8001, 0x7fff, 16),
  ('FLT', 16, 8, 0x8000, 0x8001, 0x7fff, 1000), ('UIN', 16, 0, 0xffff, 0, 0xfffe, 1), ('U2L', 16, 0x40, 0, 0, 0xffff, 1),
  ('SIN', 16, 8, 0x8000, 0x8001, 0x7fff, 1), ('S2L', 16, 0x48, 0, 0x8000, 0x7fff, 1),
  ('U3N', 24, 0, 0xffffff, 0, 0xfffffe, 1), ('S3N', 24, 8, 0x800000, 0x800001, 0x7fffff, 1), ('S3L', 24, 0x48, 0, 0x800000, 0x7fffff, 1),
  ('ULG', 32, 0, 0xffffffff, 0, 0xfffffffe, 1), ('U4L', 32, 0x40, 0, 0, 0xffffffff, 1),
  ('SLG', 32, 8, 0x80000000, 0x80000001, 0x7fffffff, 1), ('S4L', 32, 0x48, 0, 0x80000000, 0x7fffffff, 1),
  ('S1L10', 8, 0x48, 0, 0x80, 0x7f, 10), ('S2L10', 16, 0x48, 0, 0x8000, 0x7fff, 10), ('S2L1000', 16, 0x48, 0, 0x8000, 0x7fff, 1000), ('S2Lm10', 16, 0x48, 0, 0x8000, 0x7fff, -10),
  ('UIN10', 16, 0, 0xffff, 0, 0xfffe, 10), ('SIN-10', 16, 8, 0x8000, 0x8001, 0x7fff, -10), ('ULG100', 32, 0, 0xffffffff, 0, 0xfffffffe, 100),
]
# extra types for the raw-level kernels: (id, bits, flags, repl, min, max, div, firstBit)
RAWTYPES = [(t + (-1,)) for t in NUMTYPES if 'x' not in t[0]] + [
  ('UIR', 16, 4, 0xffff, 0, 0xfffe, 1, -1), ('SIR', 16, 12, 0x8000, 0x8001, 0x7fff, 1, -1), ('FLR', 16, 12, 0x8000, 0x8001, 0x7fff, 1000, -1),
  ('U3R', 24, 4, 0xffffff, 0, 0xfffffe, 1, -1), ('ULR', 32, 4, 0xffffffff, 0, 0xfffffffe, 1, -1), ('S4B', 32, 0x4c, 0, 0x80000000, 0x7fffffff, 1, -1),
  ('BCD', 8, 2, 0xff, 0, 99, 1, -1), ('BCD2', 16, 2, 0xffff, 0, 9999, 1, -1), ('BCD3', 24, 2, 0xffffff, 0, 999999, 1, -1), ('BCD4', 32, 2, 0xffffffff, 0, 99999999, 1, -1),
  ('HCD1', 8, 0xc2, 0, 0, 99, 1, -1), ('HCD2', 16, 0xc2, 0, 0, 9999, 1, -1), ('HCD4', 32, 0xc2, 0, 0, 99999999, 1, -1),
  ('PIN', 16, 0x22, 0xffff, 0, 9999, 1, -1),
  ('BI0_1', 1, 0x41, 0, 0, 0, 1, 0), ('BI0_7', 7, 0x41, 0, 0, 0, 1, 0), ('BI3_2', 2, 0x41, 0, 0, 0, 1, 3), ('BI3_5', 5, 0x41, 0, 0, 0, 1, 3), ('BI7', 1, 0x40, 0, 0, 0, 1, 7),
  ('BDY', 8, 0x200, 0x07, 0, 6, 1, -1), ('HDY', 8, 0x200, 0x00, 1, 7, 1, -1),
]
QUICK_RAW = ['UCH', 'SCH', 'D1C', 'UIN', 'SIR', 'FLT', 'D2C', 'S3N', 'ULG', 'SLG', 'BCD', 'BCD2', 'HCD2', 'BI3_2', 'BI0_7', 'BI7', 'BDY']

def rawtype_jobs(prop, T, names=None, **kw):
    out = []
    for (tid, bits, fl, repl, mn, mx, div, fb) in RAWTYPES:
        if not T and tid not in (names or QUICK_RAW):
            continue
        if tid == 'BCD4':
            continue   # four /100 digit rounds over a 32-bit value: no verdict within the 1500 s cap on a loaded machine (thorough run of session 3); BCD:4 is outside the claim, BCD, BCD:2, BCD:3, HCD:4 are decided
        d = {'T_BITS': bits, 'T_FLAGS': fl, 'T_REPL': '%du' % repl, 'T_MIN': '%du' % mn, 'T_MAX': '%du' % mx, 'T_DIV': '(%d)' % div}
        if fb >= 0:
            d['T_FIRSTBIT'] = fb
        out.append(Job(prop, 'raw_' + tid.replace('-', 'm'), 'C05_raw.cpp', defs=d, unwind=8, shape='K',
                       link=['lib/ebus/datatype.cpp', 'lib/ebus/symbol.cpp', 'lib/ebus/result.cpp', 'lib/ebus/contrib/contrib.cpp', 'lib/ebus/contrib/tem.cpp'],
                       models=['string', 'libc', 'sstream', 'posix', 'containers', 'libm'], skip_ctors=['datatype', 'contrib', 'tem'],
                       bounds='type %s (%d bits, divisor %d%s): every byte pattern of the field and its neighbours, every field offset 0..2' % (tid, bits, div, ', first bit %d' % fb if fb >= 0 else ''), **kw))
    return out

# date/time types: (id, bits, flags, repl, hasDate, hasTime); flags BCD=2 REV=4 SPE=0x1000
DATETYPES = [('BDA', 32, 2, 0xff, 1, 0), ('BDA3', 24, 2, 0xff, 1, 0), ('BDZ', 32, 0x1002, 0xff, 1, 0), ('HDA', 32, 0, 0xff, 1, 0), ('HDA3', 24, 0, 0xff, 1, 0),
             ('BTI', 24, 6, 0xff, 0, 1), ('HTI', 24, 0, 0xff, 0, 1), ('VTI', 24, 4, 0x63, 0, 1), ('BTM', 16, 6, 0xff, 0, 1), ('HTM', 16, 0, 0xff, 0, 1), ('VTM', 16, 4, 0xff, 0, 1)]
QUICK_DATE = ['BDA', 'HDA3', 'BTI', 'HTM', 'VTM']

def datetype_jobs(prop, T, **kw):
    out = []
    for (tid, bits, fl, repl, hd, ht) in DATETYPES:
        if not T and tid not in QUICK_DATE:
            continue
        d = {'D_BITS': bits, 'D_FLAGS': fl, 'D_REPL': '%du' % repl, 'D_DATE': hd, 'D_TIME': ht}
        out.append(Job(prop, 'date_' + tid, 'C05_date.cpp', defs=d, unwind=14, shape='K',
                       link=['lib/ebus/datatype.cpp', 'lib/ebus/symbol.cpp', 'lib/ebus/result.cpp', 'lib/ebus/contrib/contrib.cpp', 'lib/ebus/contrib/tem.cpp'],
                       models=['string', 'libc', 'sstream', 'posix', 'containers', 'libm'], skip_ctors=['datatype', 'contrib', 'tem'],
                       bounds='type %s: every byte pattern without replacement bytes (dates: day/month non-zero), text output format' % tid, **kw))
    return out

QUICK_NUM = ['UCH', 'SCH', 'D1C', 'UIN', 'SIN', 'FLT', 'S3N', 'ULG', 'SLG', 'U4L', 'SIN-10']

def numtype_jobs(prop, src, T, extra_defs, prefix, names=None, **kw):
    out = []
    for (tid, bits, fl, repl, mn, mx, div) in NUMTYPES:
        if names is not None:
            if tid not in names:
                continue
        elif not T and tid not in QUICK_NUM:
            continue
        d = {'T_BITS': bits, 'T_FLAGS': fl, 'T_REPL': '%du' % repl, 'T_MIN': '%du' % mn, 'T_MAX': '%du' % mx, 'T_DIV': '(%d)' % div}
        d.update(extra_defs)
        out.append(Job(prop, prefix + tid.replace('-', 'm'), src, defs=d, unwind=12, shape='K',
                       link=['lib/ebus/datatype.cpp', 'lib/ebus/symbol.cpp', 'lib/ebus/result.cpp', 'lib/ebus/contrib/contrib.cpp', 'lib/ebus/contrib/tem.cpp'],
                       models=['string', 'libc', 'sstream', 'posix', 'containers', 'libm'], skip_ctors=['datatype', 'contrib', 'tem'],
                       bounds='type %s (%d bits, divisor %d): every libc parse outcome (sign, 64-bit magnitude, overflow, trailing text, any double incl. NaN/inf), stale errno' % (tid, bits, div), **kw))
    return out

def jobs(prop, tier):
    T = tier == 'thorough'
    J = []
    if prop == 'C11':
        J.append(Job('C11', 'crc_step', 'C11_kernels.cpp', defs={'H_CRC_STEP': None}, unwind=9, shape='K',
                     bounds='all 65536 (crc,symbol) pairs; loop-free table step vs 8-round bit-serial division'))
        nd = 5 if T else 3
        J.append(Job('C11', 'crc_fold_direct', 'C11_kernels.cpp', defs={'H_CRC_FOLD': None, 'N': nd, 'DIRECT': None}, unwind=max(nd + 2, 9), shape='K',
                     solver='cadical', timeout=900 if T else 200,
                     bounds='symbol strings of length 0..%d, all byte values, against the bit-serial division directly' % nd))
        n = 16 if T else 8
        J.append(Job('C11', 'crc_fold', 'C11_kernels.cpp', defs={'H_CRC_FOLD': None, 'N': n}, unwind=n + 2, shape='K',
                     solver='z3', timeout=1500 if T else 200,
                     bounds='symbol strings of length 0..%d, all byte values (SMT back end z3: table lookups as array selects)' % n))
        for nh in range(1, (6 if T else 4)):
            J.append(Job('C11', 'hex%d' % nh, 'C11_kernels.cpp', defs={'H_HEX': None, 'N': nh}, unwind=2 * nh + 3, shape='K',
                         models=['string', 'libc'], solver='cadical', timeout=900 if T else 200,
                         bounds='all escaped sequences of exactly %d bytes (all values), both hex digit cases per digit' % nh))
        J.append(Job('C11', 'addr', 'C11_kernels.cpp', defs={'H_ADDR': None}, unwind=2, shape='K',
                     bounds='all 256 addresses x all 256 second addresses'))
    if prop == 'C01':
        BUS = dict(link=['lib/ebus/symbol.cpp', 'lib/ebus/device_trans.cpp', 'lib/ebus/result.cpp', 'lib/utils/thread.cpp'],
                   models=['string', 'libc', 'sstream', 'posix', 'containers'], solver='cadical')
        k = 8
        if T:
          J.append(Job('C01', 'run_plain', 'C01_passive.cpp', defs={'K': k, 'ENV_MAXLEN': k, 'REF_MAXL': k}, unwind=3, shape='R', timeout=3000,
                     unwindset={'vp_main': k + 1, 'RecListener': k + 1}, bounds='%d handler steps from the real initial state, every read result symbolic' % k, **BUS))
        for nn in ((3, 8, 16) if T else (16,)):
            J.append(Job('C01', 'step_nn%d' % nn, 'C01_step.cpp', defs={'NNMAX': nn}, unwind=3, shape='S', timeout=3000 if T else 300,
                         unwindset={'vp_main': 257, 'RecListener': nn + 8, 'related': nn + 8, 'setVec': nn + 8},
                         bounds='one handler step from every passive handler state related to a recogniser state, telegram parts up to NN=%d data bytes' % nn, **dict(BUS, solver=PORTFOLIO)))
        J.append(Job('C01', 'step_init', 'C01_step.cpp', defs={'NNMAX': 1, 'INIT': None}, unwind=3, shape='K', timeout=600 if T else 300,
                     unwindset={'vp_main': 9, 'RecListener': 9, 'related': 9}, bounds='the real initial state is related; one step from it', **dict(BUS, solver=PORTFOLIO)))
    if prop in ('C02', 'C03', 'C04'):
        BUS = dict(link=['lib/ebus/symbol.cpp', 'lib/ebus/device_trans.cpp', 'lib/ebus/result.cpp', 'lib/utils/thread.cpp'],
                   models=['string', 'libc', 'sstream', 'posix', 'containers'], solver=('minisat', 'kissat'))   # MiniSat wins the small phases, kissat the arbitration step
        pn = int(prop[2])
        # the only BusRequest objects in these harnesses are RecRequest; ActiveBusRequest members stay out of the dispatch
        # (checked, not assumed: a call that reaches a class outside the emitted candidates fails the slot check)
        BUS['devirt_exclude'] = ['_ZN5ebusd16ActiveBusRequest']
        # (phase of the exchange, numeric BusState of protocol_direct.h, job name)
        phases = [(0, 2, 'arb'), (2, 15, 'endsyn'), (1, 9, 'sendcmd'), (1, 10, 'sendcmdcrc'), (1, 5, 'recvcmdack'),
                  (1, 6, 'recvres'), (1, 7, 'recvrescrc'), (1, 11, 'sendresack')]
        for nn in ((3, 16) if T else (16,)):
          for (mode, hstate, nm) in phases:
            if nm == 'arb':
                for (case, cn) in ((0, 'won'), (1, 'lost'), (2, 'silent')):
                    J.append(Job(prop, 'act_arb_%s_nn%d' % (cn, nn), 'C02_step.cpp', defs={'NNMAX': nn, 'PROP': pn, 'MODE': mode, 'HSTATE': hstate, 'ARBCASE': case}, unwind=5, shape='S', timeout=3000 if T else 600,
                         unwindset={'vp_main': 257, 'RecListener': nn + 8, 'related': nn + 8, 'relatedActive': nn + 8, 'reqIsM': nn + 8, 'setVec': nn + 8},
                         bounds='one handler step from every state in which the own arbitration address was written and its echo is awaited, case "%s" of {address echoed, other symbol, nothing read}, request NN <= %d' % (cn, nn), **dict(BUS, solver='kissat', mem_gb=7)))   # kissat wins these; one process per query keeps the tier inside the memory of the machine
                continue
            J.append(Job(prop, 'act_%s_nn%d' % (nm, nn), 'C02_step.cpp', defs={'NNMAX': nn, 'PROP': pn, 'MODE': mode, 'HSTATE': hstate}, unwind=5, shape='S', timeout=3000 if T else 300,
                         unwindset={'vp_main': 257, 'RecListener': nn + 8, 'related': nn + 8, 'relatedActive': nn + 8, 'reqIsM': nn + 8, 'setVec': nn + 8},
                         bounds='one handler step from every state of phase "%s" of an own exchange related to a sender monitor state, request NN <= %d, response NN <= %d' % (nm, nn, nn), **BUS))
    if prop in ('C03', 'C04'):
        BUS = dict(link=['lib/ebus/symbol.cpp', 'lib/ebus/device_trans.cpp', 'lib/ebus/result.cpp', 'lib/utils/thread.cpp'],
                   models=['string', 'libc', 'sstream', 'posix', 'containers'], solver='kissat', devirt_exclude=['_ZN5ebusd16ActiveBusRequest'], mem_gb=6)
        pn = int(prop[2])
        nn = 1
        # (requests waiting, device arbitration state 0 idle / 1 armed / 2 address written) x handler state group
        combos = ((0, 0), (1, 0), (1, 1), (1, 2), (2, 0), (2, 1), (2, 2)) if prop == 'C03' else ((1, 0), (1, 1), (1, 2), (2, 1), (2, 2))   # bookkeeping needs a request
        groups = ((0, 'nosignal'), (1, 'skip'), (2, 'ready'), (9, 'recv'))
        # quick tier: the combinations in which arming, the address write, the echo check and the loss of signal happen
        quick = {'C03': ('q1_arm0_skip', 'q1_arm0_ready', 'q1_arm1_skip', 'q1_arm1_skip_gen', 'q1_arm1_recv', 'q1_arm2_ready'),
                 'C04': ('q1_arm1_skip', 'q1_arm2_ready', 'q1_arm2_skip')}[prop]   # q1_arm2_skip = late echo of the own address (220 s alone)
        for (nq, arm) in combos:
          for (hg, gn) in groups:
           for gs in (0, 1):
            if arm == 2 and hg == 9:
                continue   # excluded by the invariant: after the address was written only ready (echo awaited) or skip/noSignal (timed out) occur
            if gs == 1 and hg > 1:
                continue   # SYN generation only acts in noSignal/skip; in the other groups one job covers both settings
            if not T and 'q%d_arm%d_%s' % (nq, arm, gn) + ('_gen' if gs else '') not in quick:
                continue
            gdef = {'ENV_GENSYN': gs} if hg <= 1 else {}
            # declared memory per query = measured peak RSS of cbmc plus the external kissat process working on its 1-3 GB CNF
            BUS['mem_gb'] = (12 if (gs or nq == 2) else 10) if arm == 2 else 6 if (gs or hg == 9) else 3
            J.append(Job(prop, 'pas_q%d_arm%d_%s%s' % (nq, arm, gn, '_gen' if gs else ''), 'C03_passive.cpp', defs=dict({'NNMAX': nn, 'PROP': pn, 'NQ': nq, 'ARM': arm, 'HGROUP': hg}, **gdef), unwind=5, shape='S', timeout=3000 if T else 600,
                         unwindset={'vp_main': 257, 'RecListener': nn + 8, 'related': nn + 8, 'relatedActive': nn + 8, 'reqIsM': nn + 8, 'setVec': nn + 8, 'fillRequest': nn + 8},
                         bounds='one handler step from every passive handler state of group "%s" with %d request(s) waiting and the device %s, every read outcome; telegram parts NN <= %d (the data size of passive reception is C01\'s subject)' % (gn, nq, ('idle', 'armed for arbitration', 'waiting for the echo of its arbitration address')[arm], nn), **BUS))
    if prop == 'C15':
        BUS = dict(link=['lib/ebus/symbol.cpp', 'lib/ebus/device_trans.cpp', 'lib/ebus/result.cpp', 'lib/utils/thread.cpp'],
                   models=['string', 'libc', 'sstream', 'posix', 'containers'], solver=PORTFOLIO)
        J.append(Job('C15', 'key', 'C15_key.cpp', defs={'IDMAX': 4, 'ENV_NOLOG': None}, unwind=7, shape='K', timeout=900 if T else 250,
                     bounds='two registrations with arbitrary source (any/master), destination, PB, SB, ID length 0..4 and ID bytes', **BUS))
        for nn in ((3, 16) if T else (16,)):
            for (hs, nm) in ((12, 'sendcmdack'), (13, 'sendres'), (14, 'sendrescrc'), (8, 'recvresack')):
                J.append(Job('C15', 'ans_%s_nn%d' % (nm, nn), 'C15_answer.cpp', defs={'NNMAX': nn, 'HSTATE': hs}, unwind=5, shape='S', timeout=3000 if T else 300,
                             unwindset={'vp_main': 257, 'RecListener': nn + 8, 'related': nn + 8, 'relatedAnswer': nn + 8, 'setVec': nn + 8},
                             bounds='one handler step from every state of answering phase "%s" related to an answer monitor state, telegram NN <= %d, answer NN <= %d' % (nm, nn, nn),
                             **dict(BUS, solver=('minisat', 'kissat'))))
        # harness/C15_lookup.cpp (real setAnswer x2 + getAnswer on a partially constructed handler) is not registered: symex finishes
        # (35 k steps) but CBMC's propositional post-processing needs > 15 GB and no verdict within the cap, with tight unwinding
        # and with fixed-size operator new alike (DESIGN 8.5); re-measured after the translator fix of 10.1 with ONE registration: 9 GB, no verdict
    if prop == 'C18':
        M = ['string', 'libc', 'sstream', 'posix']
        for l in ((2, 3, 4, 5, 6) if T else (2, 3, 4)):
            J.append(Job('C18', 'split%d' % l, 'C18_request.cpp', defs={'H_SPLIT': None, 'L': l}, unwind=l + 3, shape='K', models=M,
                         solver=PORTFOLIO, timeout=1500 if T else 250,
                         bounds='all command lines of exactly %d characters over {a,b,blank,\",\'}' % l))
        for l in ((3, 4, 5, 6) if T else (3, 4)):
            J.append(Job('C18', 'http%d' % l, 'C18_request.cpp', defs={'H_HTTP': None, 'L': l}, unwind=l + 18, shape='K', models=M,
                         solver=PORTFOLIO, timeout=1500 if T else 250,
                         bounds='all URIs of exactly %d characters over {%%,2,5,4,1,e,/,.,a} with well-formed escapes' % l))
    if prop in ('C05', 'C06', 'C10'):
        names = None
        if prop == 'C10':
            names = ['BI0_1', 'BI0_7', 'BI3_2', 'BI3_5', 'BI7', 'UCH', 'SIR', 'BCD2']
        J += rawtype_jobs(prop, T, names=names, solver=PORTFOLIO, timeout=1500 if T else 280)
        if prop == 'C06':
            # value-level inverse through the real text parser (integer types and decimal divisors 10^k / negative divisors)
            inv = [t[0] for t in NUMTYPES if t[6] in (1, 10, 100, 1000, -10)]
            qinv = ['UCH', 'SCH', 'SIN', 'S2L', 'ULG', 'SLG', 'FLT', 'S2L10', 'S1L10', 'S2Lm10', 'UIN10', 'SIN-10']
            J += numtype_jobs('C06', 'C07_parse.cpp', T, {'H_INVERSE': None}, 'inv_', names=[n for n in inv if T or n in qinv], solver=PORTFOLIO, timeout=1500 if T else 280)
        if prop == 'C05':
            J += datetype_jobs(prop, T, solver=PORTFOLIO, timeout=1500 if T else 280)
            ranges = [(0, 4095), (36000, 40095)] if not T else [(k * 4096, k * 4096 + 4095) for k in range(16)]
            for (lo, hi) in ranges:
                J.append(Job('C05', 'day_%d' % lo, 'C05_day.cpp', defs={'RANGE_LO': lo, 'RANGE_HI': hi}, unwind=14, shape='K',
                             link=['lib/ebus/datatype.cpp', 'lib/ebus/symbol.cpp', 'lib/ebus/result.cpp', 'lib/ebus/contrib/contrib.cpp', 'lib/ebus/contrib/tem.cpp'],
                             models=['string', 'libc', 'sstream', 'posix', 'containers', 'libm'], skip_ctors=['datatype', 'contrib', 'tem'],
                             solver=PORTFOLIO, timeout=1500 if T else 280,
                             bounds='DAY type: every day count in %d..%d against the civil calendar' % (lo, hi)))
    if prop == 'C14':
        DEV = dict(link=['lib/ebus/device_trans.cpp', 'lib/ebus/symbol.cpp', 'lib/ebus/result.cpp'],
                   models=['string', 'libc', 'sstream_null', 'posix', 'containers', 'libm'], solver=PORTFOLIO,
                   noop_stubs=['_ZN5ebusd14EnhancedDevice19notifyInfoRetrievedEv'])
        J.append(Job('C14', 'encode', 'C14_enhanced.cpp', defs={'H_ENCODE': None}, unwind=10, shape='K', timeout=600 if T else 250,
                     bounds='all 256 symbols x {send, start arbitration, info request}', **DEV))
        J.append(Job('C14', 'frame', 'C14_enhanced.cpp', defs={'H_FRAME': None}, unwind=10, unwindset={'cstrlen': 34, 'put_field': 34, 'vs_copy': 34, 'basic_ostringstreamIcSt11char_traitsIcESaIcEE3strEv': 34}, shape='K', timeout=900 if T else 250,
                     bounds='every well-formed unit (plain byte or two-byte frame of any command/data) from every arbitration state', **DEV))
        J.append(Job('C14', 'plain', 'C14_enhanced.cpp', defs={'H_PLAIN': None, 'L': 3}, unwind=10, shape='K', timeout=900 if T else 250,
                     bounds='PlainDevice: every arbitration state x 1..3 arbitrary buffered bytes', **DEV))
        J.append(Job('C14', 'filetransport', 'C14_transport.cpp', defs={}, unwind=34, shape='S', timeout=900 if T else 280,
                     link=['lib/ebus/transport.cpp', 'lib/ebus/symbol.cpp', 'lib/ebus/result.cpp'], models=['string', 'libc', 'sstream_null', 'posix', 'containers', 'libm'], solver=PORTFOLIO,
                     bounds='one read/peek/consume from every buffer state (0..32 bytes, any content) x every ppoll/read outcome'))
        for l in ((2, 3, 4) if T else (2, 3)):
            J.append(Job('C14', 'stream%d' % l, 'C14_enhanced.cpp', defs={'H_STREAM': None, 'L': l}, unwind=l + 3, unwindset={'cstrlen': 34, 'put_field': 34, 'vs_copy': 34}, shape='R', timeout=3000 if T else 280,
                         bounds='every stream of %d arbitrary bytes from every arbitration state, against a reference decoder written from docs/enhanced_proto.md' % l, **DEV))
        for l in ((2, 3) if T else (2,)):
            J.append(Job('C14', 'chunk%d' % l, 'C14_enhanced.cpp', defs={'H_CHUNK': None, 'L': l}, unwind=2 * l + 2, unwindset={'cstrlen': 34, 'put_field': 34, 'vs_copy': 34, 'basic_ostringstreamIcSt11char_traitsIcESaIcEE3strEv': 34}, shape='R', timeout=3000 if T else 280,
                         bounds='every stream of %d arbitrary bytes, every split position, every initial arbitration state' % l, **DEV))
    if prop == 'C17':
        MSG = dict(link=['lib/ebus/data.cpp', 'lib/ebus/datatype.cpp', 'lib/ebus/symbol.cpp', 'lib/ebus/result.cpp', 'lib/ebus/filereader.cpp', 'lib/ebus/contrib/contrib.cpp', 'lib/ebus/contrib/tem.cpp'],
                   models=['string', 'libc', 'sstream', 'posix', 'containers', 'libm'], skip_ctors=['message', 'data.cpp', 'datatype', 'contrib', 'tem', 'filereader'],
                   rtti=True, noop_containing=['_ZNSt8_Rb_tree+8_M_eraseEPSt13_Rb_tree_node'], solver=PORTFOLIO, timeout=1500 if T else 280)
        J.append(Job('C17', 'order', 'C17_poll.cpp', defs={'H_ORDER': None}, unwind=6, shape='K', bounds='three messages with arbitrary 32-bit virtual time, priority 0..255 and 63-bit last poll time', **MSG))
        J.append(Job('C17', 'setprio', 'C17_poll.cpp', defs={'H_SETPRIO': None}, unwind=6, shape='S', bounds='one setPollPriority(0..11) on a message with any priority 0..9, virtual time within the window, any passive/scan/condition flags', **MSG))
        for m in (1, 2, 3):   # 4 messages: the rank loops alone need unwind 12 and the job gave no verdict; outside the claim
            J.append(Job('C17', 'next%d' % m, 'C17_poll.cpp', defs={'H_NEXT': None, 'M': m}, unwind=m + 4, shape='S',
                         bounds='one getNextPoll from every heap-ordered queue of %d message(s), priorities 1..9, virtual times from 30 behind to one period ahead of the last polled one, any last poll times, any clock step' % m, **MSG))
        for m in (0,):   # one and two queued messages: no verdict (5-17 GB, heap sift over symbolic pointers); outside the claim
            J.append(Job('C17', 'add%d' % m, 'C17_poll.cpp', defs={'H_ADD': None, 'M': m}, unwind=m + 5, shape='S', mem_gb=6,
                         bounds='one addPollMessage(front or back) of a new message to every heap-ordered queue of %d message(s)' % m, **MSG))
    if prop == 'C16':
        pairs = [(1, 1), (1, 3), (2, 2), (2, 3), (2, 5), (1, 4), (3, 3)] if not T else [(a, b) for a in (1, 2, 3) for b in range(1, 8) if b >= a]
        for (la, lb) in pairs:
            J.append(Job('C16', 'level_%d_%d' % (la, lb), 'C16_level.cpp', defs={'LA': la, 'LB': lb}, unwind=lb + 3, shape='K',
                         link=['lib/ebus/message.cpp'], models=['string', 'libc', 'sstream', 'posix', 'containers', 'libm'],
                         skip_ctors=['message', 'datatype'], solver=PORTFOLIO, timeout=900 if T else 250,
                         bounds='all level names of length %d over {a,b} x all level lists of length %d over {a,b,;,*}' % (la, lb)))
    if prop == 'C13':
        combos = [(1, 'a'), (2, 'ab'), (2, 'aa'), (3, 'abc'), (3, 'aba')] if not T else [(1, 'a'), (1, 'c'), (2, 'ab'), (2, 'ba'), (2, 'ac'), (2, 'aa'), (3, 'abc'), (3, 'cab'), (3, 'bca'), (3, 'acb'), (3, 'aba'), (3, 'aab'), (3, 'bab')]
        for (nf, names) in combos:
            J.append(Job('C13', 'hasfield_%s' % names, 'C13_hasfield.cpp', defs={'NF': nf, 'NAMES': '"%s"' % names}, unwind=8, shape='K',
                         link=['lib/ebus/data.cpp', 'lib/ebus/datatype.cpp', 'lib/ebus/symbol.cpp', 'lib/ebus/result.cpp', 'lib/ebus/filereader.cpp', 'lib/ebus/contrib/contrib.cpp', 'lib/ebus/contrib/tem.cpp'],
                         models=['string', 'libc', 'sstream', 'posix', 'containers', 'libm'],
                         skip_ctors=['data.cpp', 'datatype', 'contrib', 'tem', 'filereader'], rtti=True, noop_containing=['_ZNSt8_Rb_tree+8_M_eraseEPSt13_Rb_tree_node'], solver=PORTFOLIO, timeout=900 if T else 250,
                         bounds='%d fields named %s, every numeric/string kind assignment, every query (unnamed, a, b, c) x kind' % (nf, ','.join(names))))
    if prop == 'C13':
        MSG = dict(link=['lib/ebus/message.cpp', 'lib/ebus/data.cpp', 'lib/ebus/datatype.cpp', 'lib/ebus/symbol.cpp', 'lib/ebus/result.cpp', 'lib/ebus/filereader.cpp', 'lib/ebus/contrib/contrib.cpp', 'lib/ebus/contrib/tem.cpp'],
                   models=['string', 'libc', 'sstream', 'posix', 'containers', 'libm'], skip_ctors=['message', 'data.cpp', 'datatype', 'contrib', 'tem', 'filereader'],
                   rtti=True, noop_containing=['_ZNSt8_Rb_tree+8_M_eraseEPSt13_Rb_tree_node'], solver=PORTFOLIO, timeout=1500 if T else 280,
                   devirt_exclude=['_ZN5ebusd22SimpleNumericCondition', '_ZN5ebusd21SimpleStringCondition'])   # the only condition objects are the harness class and CombinedCondition (checked, not assumed)
        for u in ((2, 3, 4) if T else (2, 3)):
            J.append(Job('C13', 'history_u%d' % u, 'C13_history.cpp', defs={'U': u}, unwind=u + 6, shape='R',
                         bounds='%d updates of the referenced message with arbitrary value bytes at arbitrary clock steps of 0..2 s, availability asked after each; condition with or without value range, any range' % u, **MSG))
        J.append(Job('C13', 'history_combined_u2', 'C13_history.cpp', defs={'U': 2, 'COMBINED': None}, unwind=9, shape='R',
                     bounds='combined condition of two simple conditions on the same message, 2 updates', **MSG))
    if prop == 'C08':
        MSG = dict(link=['lib/ebus/message.cpp', 'lib/ebus/data.cpp', 'lib/ebus/datatype.cpp', 'lib/ebus/symbol.cpp', 'lib/ebus/result.cpp', 'lib/ebus/filereader.cpp', 'lib/ebus/contrib/contrib.cpp', 'lib/ebus/contrib/tem.cpp'],
                   models=['string', 'libc', 'sstream', 'posix', 'containers', 'libm'], skip_ctors=['message', 'data.cpp', 'datatype', 'contrib', 'tem', 'filereader'],
                   rtti=True, noop_containing=['_ZNSt8_Rb_tree+8_M_eraseEPSt13_Rb_tree_node'], solver=PORTFOLIO, timeout=1500 if T else 280,
                   devirt_exclude=['_ZN5ebusd14ChainedMessage', '_ZNK5ebusd14ChainedMessage'])   # no chained message objects in this harness (checked by the slot check)
        combos = [(1, 0, 0, 0, 1), (1, 2, 0, 0, 3), (2, 1, 2, 0, 3), (2, 2, 2, 0, 2), (2, 0, 1, 0, 2)] if not T else \
                 [(1, a, 0, 0, n) for a in (0, 1, 4, 5, 6) for n in (a, a + 1)] + [(2, a, b, 0, n) for (a, b) in ((0, 1), (1, 2), (2, 2), (1, 4), (4, 5), (5, 5), (2, 6)) for n in (b, b + 1)] + [(3, 1, 2, 3, 3), (3, 2, 2, 2, 3)]
        for (d_, l0, l1, l2, nn) in combos:
            J.append(Job('C08', 'find_d%d_%d%d%d_nn%d' % (d_, l0, l1, l2, nn), 'C08_find.cpp', defs={'D': d_, 'L0': l0, 'L1': l1, 'L2': l2, 'NN': nn}, unwind=max(l0, l1, l2, nn) + 8, shape='R',
                         bounds='%d definition(s) with ID length(s) %s and arbitrary direction, passive/active, source, destination, PB, SB, ID bytes; telegram with NN = %d and arbitrary bytes; every find flag combination' % (d_, (l0, l1, l2)[:d_], nn), **MSG))
    if prop == 'C09':
        MSG = dict(link=['lib/ebus/message.cpp', 'lib/ebus/data.cpp', 'lib/ebus/datatype.cpp', 'lib/ebus/symbol.cpp', 'lib/ebus/result.cpp', 'lib/ebus/filereader.cpp', 'lib/ebus/contrib/contrib.cpp', 'lib/ebus/contrib/tem.cpp'],
                   models=['string', 'libc', 'sstream', 'posix', 'containers', 'libm'], skip_ctors=['message', 'data.cpp', 'datatype', 'contrib', 'tem', 'filereader'],
                   rtti=True, noop_containing=['_ZNSt8_Rb_tree+8_M_eraseEPSt13_Rb_tree_node'], solver=PORTFOLIO, timeout=1500 if T else 280)
        import itertools
        shapes = [(2, 1, 1, 2), (2, 0, 2, 1)] if not T else [(2, 1, 1, 2), (2, 0, 2, 1), (2, 2, 0, 3), (3, 1, 1, 1)]
        for (p_, pre, lm, ls) in shapes:
            for k_ in ((2, 3) if not T or p_ == 2 else (3, 4)):
                for order in itertools.product(range(p_), repeat=k_):
                    if not T and k_ == 3 and order not in ((0, 1, 0), (1, 0, 0), (0, 0, 1), (1, 1, 0)):
                        continue
                    d = {'P': p_, 'K': k_, 'PREFIX': pre, 'LM': lm, 'LS': ls}
                    for i, o in enumerate(order):
                        d['ORD%d' % i] = o
                    if len(set(order)) == p_:
                        d['EXPECT_COMBINE'] = None
                    J.append(Job('C09', 'chain_p%d_%d%d%d_o%s' % (p_, pre, lm, ls, ''.join(map(str, order))), 'C09_chain.cpp', defs=d, unwind=p_ * max(lm, ls) + pre + 9, unwindset={'grow_insert': 22}, extra=['-DVP_VECGROW_FIXED=20'], shape='R',
                                 bounds='chained message of %d parts (chain prefix %d byte(s), %d master and %d slave data byte(s) per part), parts arriving in the order %s, arbitrary data bytes, clock steps 0..3 s' % (p_, pre, lm, ls, order), **MSG))
    if prop == 'C20':
        # C20 = conjunction of the built-in safety obligations (bounds, pointer validity, freed objects, shifts, signed overflow,
        # division by zero, uncaught-throw model, unwinding assertions = bounded work) over kernels whose inputs are arbitrary buffers
        DEVN = dict(link=['lib/ebus/device_trans.cpp', 'lib/ebus/symbol.cpp', 'lib/ebus/result.cpp'],
                    models=['string', 'libc', 'sstream_null', 'posix', 'containers', 'libm'], solver=PORTFOLIO, devirt_exclude=['_ZThn16_N5ebusd10BaseDevice22notifyTransportMessage'])
        nf = 2 if T else 1
        J.append(Job('C20', 'enh_info', 'C14_enhanced.cpp', defs={'H_INFO': None, 'L': 2, 'NF': nf}, unwind=5, shape='S', timeout=1500 if T else 280,
                     noop_stubs=['_ZN5ebusd14EnhancedDevice19notifyInfoRetrievedEv'],
                     unwindset={'cstrlen': 34, 'put_field': 34, 'vs_copy': 34, 'vp_main': 18}, bounds='inductive step: arbitrary info-transfer state satisfying the invariant (position 0..17, announced length 0..256, any buffer content) x %d arbitrary INFO frame(s); invariant re-asserted after each frame; the consumer notifyInfoRetrieved is decided separately (enh_info_consume)' % nf, **DEVN))
        labels = [(2, 0), (5, 0), (8, 0), (9, 1), (8, 2), (3, 2), (2, 3), (2, 4), (2, 5), (2, 6), (1, 7)]
        for (ln, iid) in (labels if T else [(8, 0), (9, 1), (3, 2), (2, 5)]):
            J.append(Job('C20', 'enh_info_consume_%d_%d' % (ln, iid), 'C14_enhanced.cpp', defs={'H_INFO2': None, 'L': 2, 'INFO_LEN': ln, 'INFO_ID': iid}, unwind=11, shape='K', timeout=1500 if T else 280,
                         unwindset={'cstrlen': 34, 'put_field': 34, 'vs_copy': 80, 'vp_main': 18, 'strEv': 80, 'vs_strlen': 80, 'vs_move': 80}, bounds='real notifyInfoRetrieved on the defined response id %d with %d payload bytes, every payload; literal text rendered, numbers as one placeholder digit' % (iid, ln), **dict(DEVN, models=['string_fixed', 'libc', 'sstream_lit', 'posix', 'containers', 'libm'])))
        J.append(Job('C20', 'enh_info_consume_other', 'C14_enhanced.cpp', defs={'H_INFO2': None, 'L': 2}, unwind=11, shape='K', timeout=1500 if T else 280,
                     unwindset={'cstrlen': 34, 'put_field': 34, 'vs_copy': 80, 'vp_main': 18, 'strEv': 80, 'vs_strlen': 80, 'vs_move': 80}, bounds='real notifyInfoRetrieved on every 17-byte buffer and announced length 1..256 that is not one of the 11 defined (length, id) responses; literal text rendered, numbers as one placeholder digit', **dict(DEVN, models=['string_fixed', 'libc', 'sstream_lit', 'posix', 'containers', 'libm'])))
        def adopt(src, pick, prefix=''):
            for j in jobs(src, tier):
                if pick(j.name):
                    j.prop = 'C20'
                    j.name = prefix + j.name
                    j.dir = __import__('os').path.join(__import__('vplib.pipeline', fromlist=['BUILD']).BUILD, 'C20', j.name)
                    J.append(j)
        adopt('C14', lambda n: n in ('frame', 'chunk2', 'plain', 'filetransport'), 'enh_')
        adopt('C11', lambda n: n.startswith('hex'))
        adopt('C05', lambda n: T or n in ('raw_UCH', 'raw_BCD2', 'raw_SLG', 'raw_BI3_2', 'raw_S3N'))
        adopt('C07', lambda n: T or n in ('parse_UCH', 'parse_FLT', 'parse_ULG', 'parse_SLG'))
        adopt('C15', lambda n: True)
        # the protocol handler on arbitrary bus symbols from arbitrary related states (passive, own exchange, answering):
        # the same inductive steps, counted here for their built-in memory-safety / bounded-work obligations
        adopt('C01', lambda n: n == 'step_nn16', 'bus_')
        adopt('C02', lambda n: T or n in ('act_sendcmd_nn16', 'act_recvres_nn16', 'act_sendresack_nn16'), 'bus_')
    if prop == 'C07':
        J += numtype_jobs('C07', 'C07_parse.cpp', T, {}, 'parse_', solver='cadical', timeout=900 if T else 250)
    if prop == 'C12':
        CODEC = dict(link=['lib/ebus/datatype.cpp', 'lib/ebus/symbol.cpp', 'lib/ebus/result.cpp', 'lib/ebus/contrib/contrib.cpp', 'lib/ebus/contrib/tem.cpp'],
                     models=['string', 'libc', 'sstream', 'posix', 'containers', 'libm'], skip_ctors=['datatype', 'contrib', 'tem'], solver=PORTFOLIO, timeout=1500 if T else 280)
        for (tid, bits, fl, repl, hd, ht) in DATETYPES:
            if not T and tid not in ('BDA', 'HDA3', 'BTI', 'VTM'):
                continue
            J.append(Job('C12', 'stream_' + tid, 'C12_stream.cpp', defs={'D_BITS': bits, 'D_FLAGS': fl, 'D_REPL': '%du' % repl, 'D_DATE': hd, 'D_TIME': ht}, unwind=14, unwindset={'vp_main': 26, 'strEv': 40, 'vs_copy': 40, 'vs_strlen': 40, 'vs_move': 40, 'put_field': 40}, shape='K',
                         bounds='type %s: every byte pattern, text and JSON output, every formatting state other fields can leave behind (hex/dec, fixed, fill, precision 0..9)' % tid, **CODEC))
        for (nm, bits, fl, hexf) in (('HEX2', 16, 0, 1), ('STR3', 24, 0, 0)) + ((('HEX4', 32, 0, 1), ('STR4R', 32, 4, 0)) if T else ()):
            J.append(Job('C12', 'stream_' + nm, 'C12_stream.cpp', defs={'D_BITS': bits, 'D_FLAGS': fl, 'S_HEX': hexf}, unwind=14, unwindset={'vp_main': 26, 'strEv': 40, 'vs_copy': 40, 'vs_strlen': 40, 'vs_move': 40, 'put_field': 40}, shape='K',
                         bounds='string type %s: every byte pattern (character strings over a small alphabet incl. terminator, control characters and quote), text and JSON output, every formatting state other fields can leave behind' % nm, **CODEC))
        J += numtype_jobs('C12', 'C07_parse.cpp', T, {'H_ERRNO': None}, 'errno_', names=(None if T else ['UCH', 'SIN', 'FLT', 'ULG']), solver='cadical', timeout=900 if T else 250)
    return J

COMMON_ASSUME = ['clang-14 -O1 lowering + ll2c translation (validated per run against the native build on witness and random tapes)',
                 'operator new never fails', 'CBMC 6.11 + SAT/SMT back end', 'models/*.c for libstdc++/libc externals (DESIGN 2.3)']
BUS_NOTE = ('Trusted: clang-14 lowering, ll2c, models (string, sstream, posix, cxxabi, vecgrow), CBMC + CaDiCaL. Environment: TapeTransport '
            '(every read result = timeout | error | chunk of 1..2 arbitrary bytes), clock = arbitrary non-decreasing instants, logging off. '
            'DirectProtocolHandler::run() itself (thread start, 5 s reopen wait) is not encoded; its loop body is re-stated in env_bus.h Stepper.')
META = {
 'C02': dict(
   level_text='Bounded model checking, inductive: the real DirectProtocolHandler::handleSend/handleReceive/setState/messageCompleted on the real PlainDevice are run for ONE step from EVERY handler state with an own request in flight (arbitration address written and its echo awaited; sending command bytes; sending the command CRC; waiting for the command ACK; receiving the response; receiving the response CRC; sending ACK/NAK; sending the closing SYN -- one job per phase) that is related (relation RA in harness/C02_step.cpp) to a state of an independent sender monitor written from the statement (ref::Sender in ref_bus.h: escaped continuation, CRC over the escaped bytes, one repetition after NAK, ACK iff response CRC correct with one re-read, closing SYN), with every read outcome (timeout, device error, any symbol incl. wrong echo, SYN, bytes already buffered) chosen by the solver. Asserted: the step writes exactly the symbol the monitor expects (or nothing) and before reading its echo; the request is completed exactly when the monitor says the exchange ended, with RESULT_OK iff the monitor judged it valid for the destination kind, carrying the unescaped response; it is reported as md_send with the request bytes iff it succeeded; the successor state is in RA again or in the passive relation of C01. The arbitration phase (entry into RA) is part of RA. Bound: request and response NN <= 16 (the eBUS maximum), one step.',
   level_note=BUS_NOTE + ' Preconditions (part of the claim): the queued request is a complete master telegram (5+NN bytes, NN <= 16) from a master address to a valid other address; not read-only (addRequest refuses requests in read-only mode). RA fixes state, send position, CRC, escape state, repeat flags, response bytes, current request, device arbitration state; lock counters, seen addresses, latency statistics, clock, listener state, retry counters, restart/self-delete flags are arbitrary. Plain device only. The retry loop of ProtocolHandler::sendAndWait (client thread side) is not encoded. After a protocol-level failure decided by ebusd itself (second NAK, second response CRC error, wrong ACK symbol) the monitor accepts both "closing SYN" and "silent".',
   outside_claim='EnhancedDevice (adapter arbitrates); sendAndWait retry loop and client-side waiting; NN > 16; malformed request objects; durations (timeouts are outcomes, not measured times)',
   assumptions=COMMON_ASSUME + ['induction: relation RA of harness/C02_step.cpp together with the passive relation of rel_bus.h is an invariant (entry: arbitration phase; step: act_* jobs)', 'sender monitor ref::Sender in harness/ref_bus.h states the C02 wire rules'],
 ),
 'C03': dict(
   level_text='Bounded model checking, inductive, of the entitlement to write, over a relation that covers every state of the bus thread: passive states with waiting requests and any device arbitration state (C03_passive.cpp) and states with an own exchange in progress (C02_step.cpp, assertion group 3). Passive side: see level_note. Active side: from every such state one handler step writes at most one symbol, only as the echo-verified continuation the sender monitor expects (never while the arbitration echo is still awaited, never in a receiving phase), and after an echo mismatch, a read timeout or device error, or a received SYN the successor state is a passive, non-sending state (silent until the next SYN).',
   level_note=BUS_NOTE + ' This decides clauses (b) and "silent after echo mismatch / receive error" of the statement on the plain device. Clause (a), clause (d) (AUTO-SYN) and read-only silence are decided by the passive step harness C03_passive.cpp (pas_* jobs: every passive handler state x 0..2 waiting requests x device idle / armed / address written): an address is written only directly after a lone SYN, only the head request\'s source, only with a pending request and not read-only; the device is armed only with expired lock counter, pending request, no current request, in skip/ready; AUTO-SYN only when configured, after a timed-out read of at least the generation interval in noSignal/skip. (a) is asserted at ARMING time: a lock counter raised after arming (SYN with more data buffered) does not disarm the device -- observation, not asserted. The quick tier runs the five (request, device, state-group) combinations in which arming, address write and echo check happen; the thorough tier all 40. Clause (c) (answering) is decided by the C15 answer harness. The stronger reading "skip one more SYN after a lost arbitration" is reported as observation OBS-C03-lockcount-dead (DESIGN section 3), not asserted.',
   outside_claim='EnhancedDevice; answer mode writes (C15); wall-clock AUTO-SYN interval measurement',
   assumptions=COMMON_ASSUME + ['same relations as C02'],
 ),
 'C04': dict(
   level_text='Bounded model checking, inductive, of request bookkeeping (step harness of C02, assertion group 4, with one more request waiting in the queue and one in the finished queue; plus the passive step harness C03_passive.cpp, assertion group 4, for requests that wait while ebusd receives, arbitrates, loses arbitration or loses the signal): after one handler step from every state with an own exchange in progress or an arbitration pending, under every read outcome, the request is in exactly one place (current, next queue once, finished queue once, deleted once); it is completed at most once (a second completion only as NO_SIGNAL drain of the new life of a request that asked for a restart in the same step), exactly when the exchange ends; a lost arbitration re-queues it without notification while bus-lost retries remain and completes it with ERR_BUS_LOST otherwise; restart re-queues, self-deleting requests are deleted once, waited requests reach the finished queue once; loss of signal completes every queued request once with NO_SIGNAL; bystander requests are untouched. Use after delete is covered by CBMC pointer checks on the deleted object.',
   level_note=BUS_NOTE + ' Sequential claim about the bus thread only: the interleaving clause of the statement (client threads in addRequest/sendAndWait against the bus thread on Queue<T>) is NOT decided -- CBMC concurrency on the translated std::list/pthread code was not attempted within this budget. PollRequest/ScanRequest::notify bodies are replaced by a request mock whose restart answer is arbitrary.',
   outside_claim='thread schedules (client threads vs bus thread), Queue<T> under concurrency, device close/reopen loop of run(), PollRequest/ScanRequest/ActiveBusRequest notify bodies, liveness ("eventually") beyond one step',
   assumptions=COMMON_ASSUME + ['same relations as C02'],
 ),
 'C20': dict(
   level_text='Bounded model checking of memory safety and bounded work on the kernels that consume untrusted bytes: adapter frames incl. arbitrary INFO transfers into the 17-byte info buffer (real notifyInfoRetrieved), chunked adapter streams, escaped hex parsing, numeric field decode/encode at arbitrary offsets, numeric text parsing for every libc outcome, answer-key construction, and the protocol handler state machine (one step from every related state on an arbitrary symbol or fault). Obligations are CBMC built-in checks (array bounds, pointer validity incl. freed objects, division by zero, signed overflow, uncaught-exception model, unwinding assertions) plus shift/conversion checks confirmed by native UBSan replay.',
   level_note='Covers the listed kernels and, since the handler became reachable (DESIGN 10.1), one handler step from every related passive / own-exchange / answering state on an arbitrary symbol, timeout or device error (the inductive steps of C01, C02, C15, here for their built-in safety obligations incl. use of deleted request objects). NOT covered (beyond this encoding, see DESIGN section 8): client command lines and HTTP requests through MainLoop, CSV/definition loaders, leak freedom of request objects. Those interfaces are fuzzing territory; no claim is made for them.',
   outside_claim='MainLoop command interpreter and HTTP requests, CSV/definition loaders, define/decode/encode commands, leak freedom at handler destruction, EnhancedDevice composed with the handler',
   assumptions=COMMON_ASSUME,
 ),
 'C17': dict(
   level_text='Bounded model checking of the real poll scheduling code as inductive steps (Message::isLessPollWeight, Message::setPollPriority, MessageMap::getNextPoll, MessageMap::addPollMessage with the real std::priority_queue header code and the file-static virtual clock): the comparator is the documented strict weak order for all field values; from EVERY heap-ordered queue of up to 3 messages with priorities 1..9 one getNextPoll selects a message that is due first, advances its virtual time by exactly its priority, sets the virtual clock to the maximum, leaves the others untouched and the queue a duplicate-free heap, keeps the scheduling window invariant (no message more than one period ahead) and strictly decreases the waiting rank of every other message (so every message is selected again within a bounded number of selections, and since each selection costs exactly p ticks of virtual time the long-run frequency is proportional to 1/p); setPollPriority never places a message before clock+priority (no overtaking) and keeps the window invariant; adding a new message to an empty queue keeps it a duplicate-free heap.',
   level_note='Message and MessageMap objects are constructed partially (poll fields, poll queue, mutex); the rest of these classes (string maps) is not needed by the poll code. Induction gap stated openly: the step assumes a heap-ordered queue; MessagePriorityQueue::push/remove erase an ALREADY QUEUED message from the middle of the vector without re-heapifying, which can leave a non-heap (observation OBS-C17-erase-breaks-heap); re-adding a queued message and removal are therefore outside the claim. Unsigned wrap of the virtual clock after 2^32 ticks is assumed away (window bound). BusHandler trigger of polling is outside.',
   outside_claim='re-adding an already queued message / removal (erase from the middle of the heap), adding to a non-empty queue (no verdict: 5-17 GB), queues of more than 3 messages, 2^32 wrap of the virtual clock, message reload, BusHandler poll trigger',
   assumptions=COMMON_ASSUME + ['queue vector is heap-ordered before the step (std::priority_queue representation invariant)', 'virtual times within [clock-30, clock+priority]'],
 ),
 'C08': dict(claimed=False, na_reason='MessageMap::find was attempted with partially constructed Message/MessageMap objects and hand-set vtable pointers (harness/C08_find.cpp: real createKey x2, find, getFirstAvailable, checkId against a linear-scan reference): it translates and runs, but every Message* comes out of a std::map node / std::vector<Message*> as a symbolic pointer, so m_id.size() is not a constant at any of the ~100 checkId call sites and each unwinds to the bound; no verdict within 280 s even for ONE definition with an empty ID. Same blow-up class as getAnswer (DESIGN 10.5). Not claimed; seed C08-chain-suffix-unchecked is missed.',
   level_text='n/a', level_note='n/a', outside_claim='n/a', assumptions=COMMON_ASSUME),
 'C09': dict(claimed=False, na_reason='Message::prepareMaster / decodeLastData need complete Message and DataFieldSet objects (std::map<string,...> construction, beyond this encoding, DESIGN 8.2). The chained-message clause was attempted with a partially constructed ChainedMessage and a hand-set vtable pointer (harness/C09_chain.cpp: real storeLastData -> checkId -> combineLastParts over all arrival orders): the code translates and runs (30 k steps without vector growth), but combineLastParts fills LOCAL SymbolStrings by push_back in loops whose trip count is read from stored data, so every push_back site forks into the growth path; no verdict within 280 s per job even with the fixed-capacity growth model (DESIGN section 19). Not claimed.',
   level_text='n/a', level_note='n/a', outside_claim='n/a', assumptions=COMMON_ASSUME),
 'C13': dict(
   level_text='Bounded model checking of two parts. (1) History: the real SimpleCondition::isTrue (verdict cache keyed by the referenced message\'s last change time) and CombinedCondition::isTrue, fed by the real Message::storeLastData(slave) change tracking, over U <= 3 (thorough 4) updates with arbitrary value bytes at arbitrary non-decreasing clock readings (steps of 0, 1 or 2 seconds, so several updates within one second are included) with an availability query after every update: not available before the first update; afterwards available iff the most recently stored value satisfies the condition (any range; value-less = seen); asking again gives the same verdict; same for a combined condition of two. (2) Resolution: the real field lookup used when a condition is resolved (DataFieldSet::hasField / SingleDataField::hasField): for every assignment of numeric/string kinds to up to 3 named fields and every query (unnamed or named, numeric or string) the answer is true iff a field of that name and kind exists.',
   level_note='History part: the Message is constructed partially (last-data members only; storeLastData is called non-virtually) and the value test checkValue -> decodeLastDataNumField -> DataFieldSet::read is replaced by a harness condition class that reads the stored data byte directly (same predicate on both sides; the subject is the history tracking, not the decoding, which C05 covers at type level). Outside: range/value-list parsing (splitValues), string conditions\' value comparison, SimpleCondition::resolve message lookup by name, scan conditions -- these sit on Message/MessageMap objects (std::map of strings) that this encoding does not reach within the cap.',
   outside_claim='checkValue decoding path (decodeLastDataNumField / decodeLastData), range/value-list parsing, scan conditions, message lookup in resolve(), histories longer than the bound, master-data change tracking',
   assumptions=COMMON_ASSUME,
 ),
 'C16': dict(
   level_text='Bounded model checking of the real Message::checkLevel (the predicate behind hasLevel on every read/write/poll/data-sink path): for every level name and every granted level list within the length bounds over an alphabet with separators and the wildcard, access is granted iff the list is "*" or contains the name as an exact token -- prefix, suffix and infix names never match.',
   level_note='Only the matching predicate is decided. Outside: the wiring of hasLevel into MainLoop::executeRead/Write/Find, MQTT/KNX handlers, user authentication (UserList), which are string/option-heavy functions beyond the reach of this encoding. Trusted: models/string.c (find/compare/operator[]).',
   outside_claim='call sites of hasLevel in mainloop.cpp / mqtthandler.cpp / knxhandler.cpp, ACL file parsing and authentication, names longer than the bound',
   assumptions=COMMON_ASSUME,
 ),
 'C14': dict(
   level_text='Bounded model checking of the real EnhancedDevice (send/startArbitration/requestEnhancedInfo/recv/handleEnhancedBufferedData): exact two-byte encoding for all symbols; every well-formed unit decodes to the symbol and won/lost result the enhanced protocol assigns from every arbitration state; every stream of L arbitrary bytes decodes to the same symbols, results and diagnostics for every split into two chunks.',
   level_note='Trusted: clang-14 lowering, ll2c, models (string, sstream for diagnostic texts), CBMC. Environment: in-memory transport handing out what is buffered; time() constant per execution. Also decided: PlainDevice::recv on 1..3 buffered bytes from every arbitration state, and FileTransport read/peek/consume as an inductive step over every buffer state (0..32 bytes) x every ppoll/read outcome (bytes handed out unchanged and in order; a reported overflow discards exactly the buffered bytes). Outside: splits into more than two chunks, streams longer than L, info response texts.',
   outside_claim='more than two chunks, streams longer than the bound, info text formatting, NetworkTransport/SerialTransport device setup',
   assumptions=COMMON_ASSUME,
 ),
 'C05': dict(
   level_text='Bounded model checking of the real decode kernels. Numeric: for every byte pattern of every checked built-in type (all 1..4 byte integer, fixed-point, BCD/HCD, weekday and bit types incl. big-endian variants) the raw decode (readRawValue / getFloatFromRawValue) equals an independent reference (endianness, digit validity, bit range), the replacement pattern decodes to null, out-of-range raws are rejected, and the numeric value equals sign/divisor semantics of the type definition. Date/time: the real DateTimeDataType::readSymbols (text rendered through the stream model) for BDA, BDA:3, BDZ, HDA, HDA:3, BTI, HTI, VTI, BTM, HTM, VTM (quick: 5 of them) on every byte pattern without replacement bytes against an independent decode (digit validity, day/month/hour/minute ranges, 24:00 rule, component order); DAY: every day count in the checked ranges (thorough: all 65536) against the civil calendar (known finding KF-C05-DAY1900 for counts 0..58).',
   level_note='Trusted: clang-14 lowering, ll2c, CBMC float encoding, models/sstream.c for the date/time texts. Numeric text rendering (digits of numbers through iostreams) is outside: numeric claims are at raw-value level. Outside as well: string/hex types (their text is covered for stream-state independence only, C12), EXP/KNX floats, MIN/TTM/TTH/TTQ time types, DTM, value lists, JSON output of numeric types, partial-null dates, DataFieldSet layout across several fields.',
   outside_claim='BCD:4 (no verdict within the cap), numeric text output formats, string/hex type decoding, EXP/KNX float types, MIN/TTx/DTM types, value lists, multi-field layout, float exactness for |raw| >= 2^24',
   assumptions=COMMON_ASSUME,
 ),
 'C06': dict(
   level_text='Bounded model checking of encode-inverts-decode. Raw level: for every decodable byte pattern of every checked numeric/BCD/HCD/bit/weekday type, writeRawValue(readRawValue(bytes)) reproduces the bits the field owns (canonical replacement for null) and succeeds. Value level: for every in-range raw value of every integer type and every type with a decimal or negative divisor, the text ebusd prints for it (sv, sv*|div|, or sv/10^k with exactly k digits) is accepted by the real NumberDataType::parseInput and yields the same raw value (strtol/strtoul/strtod modelled by their contract on that text).',
   level_note='Trusted: clang-14 lowering, ll2c, CBMC float encoding, the libc contract stubs of C07_parse.cpp. Outside: digit rendering itself (num_put), divisors that are not powers of ten at value level (D2B/D2C/D1C are covered at raw level only), date/time/string/hex types, value lists, the converse direction (encode-decode-encode fixed point from arbitrary user texts), EXP/KNX floats.',
   outside_claim='BCD:4 (no verdict within the cap), date/time/string/hex types, value lists, non-decimal divisors at text level, encode-decode-encode from arbitrary texts, EXP/KNX float types',
   assumptions=COMMON_ASSUME,
 ),
 'C10': dict(
   level_text='Bounded model checking of bit/byte ownership at the field-type level: for every type (incl. bit types BI0..BI7 with lengths) and every field offset, encoding changes only the bits the field owns in an arbitrary pre-filled buffer and decoding ignores all other bits (the decoded raw is a function of the owned bits only).',
   level_note='Raw-level kernels only: readRawValue / getFloatFromRawValue / writeRawValue of the real NumberDataType per built-in numeric, BCD/HCD, weekday and bit type. Trusted: clang-14 lowering, ll2c, CBMC float encoding. Outside: text rendering and parsing through iostreams (readSymbols/writeSymbols text), date/time/string types, EXP/KNX floats, value lists, DataFieldSet layout across several fields.',
   outside_claim='text output/input formats, date/time/string/hex types, EXP/KNX float types, value lists, multi-field layout, float exactness for |raw| >= 2^24',
   assumptions=COMMON_ASSUME,
 ),
 'C07': dict(
   level_text='Bounded model checking of the real NumberDataType::parseInput + checkValueRange per built-in numeric type: the libc parse result is a free 64-bit / double variable constrained only by the strtol/strtoul/strtod contract, so every text outcome (sign, any magnitude, overflow, trailing garbage, NaN/inf) is covered; success implies well-formed text, value in the representable and configured range, and a raw value that decodes to the request within one resolution step.',
   level_note='Trusted: clang-14 lowering, ll2c, the libc contract stubs in C07_parse.cpp (symbolic) vs real glibc on the generated text (native replay), models/libm.c (exp2/round), CBMC float encoding. The registry constructor is not executed (types are constructed from the transcribed table). Outside: value lists (ValueListDataField), BCD/HCD digit types, date/time types, EXP float type, derived min/max/step via derive().',
   outside_claim='value-list fields, BCD/HCD and date/time types, EXP/EXR, derive()d ranges, the text->libc step itself (glibc trusted)',
   assumptions=COMMON_ASSUME + ['a conforming libc: strtol/strtoul/strtod return the mathematical value of the text or saturate with ERANGE'],
 ),
 'C12': dict(
   level_text='Bounded model checking of two purity clauses on the real code. (1) Call history: the result of NumberDataType::parseInput for any input is the same whether errno was 0 or ERANGE before the call (i.e. after an arbitrary earlier operation in the thread), per numeric type, for every libc outcome. (2) Output history: the real DateTimeDataType / StringDataType::readSymbols, run on the same bytes into a fresh ostringstream and into one that carries every formatting state ebusd\'s own field formatting can leave behind (base hex or dec, fixed or not, fill 0 or blank, precision 0..9) plus text already present, return the same code and append the identical text, for every byte pattern, text and JSON output (2-run harness, one type per job).',
   level_note='Stream state is the state of the ostringstream model (models/sstream.c: flags, width, fill, precision as the standard specifies; text rendered for real). The set of dirty states is derived from the manipulators used in datatype.cpp / data.cpp (hex, dec, fixed, setfill, setprecision; width is consumed by every insertion). Outside: numeric types on a used stream (NumberDataType::readSymbols resets all flags itself at entry -- read, not decided), load-order independence of definitions, derive() order, errno clause for non-numeric types.',
   outside_claim='numeric types on a used stream, derive() order independence, definition load order, value lists, errno clause of date/string writes',
   assumptions=COMMON_ASSUME,
 ),
 'C19': dict(claimed=False, na_reason='the statement is about dump -> reload -> dump of whole definition sets (Message::create, DataField::create, MappedFileReader, Message::dump: > 1500 lines over std::map<string,string>, getline and iostreams); no bounded encoding of it is within reach of this pipeline (DESIGN 4/C19, 8.5). The CSV line splitter kernel (FileReader::splitFields) sits on the same getline/std::string code as C18 and gives no verdict even for 2-character lines (re-measured after the translator fix, DESIGN 15).', level_text='n/a', level_note='n/a', outside_claim='n/a', assumptions=COMMON_ASSUME),
 'C18': dict(
   claimed=False, na_reason='harness C18_request.cpp (real RequestImpl::split / add against a reference tokenizer and percent decoder) translates, but symbolic token lengths inside getline/std::string code give no verdict: re-measured after the translator fix of DESIGN 10.1 -- split2..4 need 4-7 GB and reach no verdict in 250 s, http3/4 time out. executeGet root containment and StringReplacer were not attempted. Not claimed.',
   level_text='Bounded model checking of the real RequestImpl::split and RequestImpl::add: for every command line / URI of the stated lengths over the stated alphabets the result equals a reference tokenizer / single-pass percent decoder written from the statement.',
   level_note='Trusted: clang-14 lowering, ll2c, models/string.c, sstream.c (istringstream/getline), libc.c (mini sscanf: any directive other than %1x in the format is reported). Outside: executeGet path containment under the HTML root, MQTT topic template matching (StringReplacer), unterminated quotes, malformed escapes.',
   outside_claim='HTML-root containment in MainLoop::executeGet, MQTT topic round trip, lines/URIs longer than the bound, unterminated quotes, malformed percent escapes',
   assumptions=COMMON_ASSUME,
 ),
 'C15': dict(
   level_text='Bounded model checking of answer mode in two parts. (1) On-wire exchange, inductive: the real DirectProtocolHandler::handleSend/handleReceive/setState/messageCompleted on the real PlainDevice are run for ONE step from EVERY state in which ebusd is answering (acknowledge due; sending response bytes; sending the response CRC; waiting for the master\'s acknowledge -- one job per state) that is related (relation RN in harness/C15_answer.cpp) to a state of an independent answer monitor (ref::Answerer), every read outcome chosen by the solver: the step writes exactly ACK, then NN, the escaped data and the CRC of the escaped response, nothing while waiting; repeats the response exactly once after a NAK; reports md_answer with the received command and the registered answer exactly when the exchange completed; is silent after echo mismatch, fault or SYN; ends in RN or the passive relation of C01. Telegram and answer NN <= 16. (2) Key kernel: the real createAnswerKey maps two registrations to the same key iff they agree on source, destination, PB, SB, ID length and ID bytes; the any-source key is the key without the source bits; shift amounts in range for ID lengths 0..4.',
   level_note=BUS_NOTE + ' NOT decided: the entry into answering, i.e. getAnswer\'s longest-prefix search in the std::map (real setAnswer + getAnswer with ONE registration still needs > 9 GB and gives no verdict, DESIGN 10.5) -- so "answers iff a registered answer matches" and "longest matching ID prefix" rest on the key kernel only, and a change inside getAnswer (seed C15-anysource-mask-0f) is missed. The answering states are entered only from bs_recvCmdCrc with a CRC-correct telegram (m_crcValid), which is part of RN. NAK of a CRC-wrong telegram addressed to ebusd is unreachable in this tree (observation, DESIGN section 3).',
   outside_claim='getAnswer search loop (which registered answer is chosen, MM tail-length rule), CLI parsing of --answer, EnhancedDevice, NN > 16',
   assumptions=COMMON_ASSUME + ['induction: relation RN of harness/C15_answer.cpp together with the passive relation of rel_bus.h', 'answer monitor ref::Answerer in harness/ref_bus.h states the C15 wire rules'],
 ),
 'C01': dict(
   level_text='Bounded model checking, inductive: the real DirectProtocolHandler::handleSend/handleReceive on the real PlainDevice is run for ONE step from EVERY passive handler state that is related (relation R in harness/C01_step.cpp) to a state of an independent eBUS telegram recogniser written from the protocol rules, with every transport outcome (timeout, read error, chunk of 1..2 arbitrary bytes, bytes already buffered) and every clock reading chosen by the solver; asserted: the step reports exactly the telegrams the recogniser completes (count, direction, source, destination, command, unescaped data, slave data) and ends in R again. R holds in the real initial state (step_init). By induction the reports agree for byte streams of any length; the bound is the telegram size (NN <= 16 data bytes per part, the eBUS maximum) and one step. A K-step run from the initial state (run_plain, thorough) cross-checks the relation against real histories.',
   level_note=BUS_NOTE + ' R fixes state, escape flag, CRC, repeat flag, command/response bytes; lock counters, seen-address table, master count, latency statistics, SYN time, last-receive time and listener state are arbitrary in the pre-state. Passive operation only: no own request queued or in progress, not answering (both are preserved by the step and part of R).',
   outside_claim='telegram parts with NN > 16; own requests in flight or answer mode active while receiving (C02/C15 territory); the EnhancedDevice variant (frames decoded by C14 kernels, not composed with the handler here); DirectProtocolHandler::run() reopen loop; wall-clock durations',
   assumptions=COMMON_ASSUME + ['induction: relation R of harness/C01_step.cpp is an invariant (base: step_init, step: step_nn*)', 'reference recogniser harness/ref_bus.h states the eBUS telegram rules'],
 ),
 'C11': dict(
   outside_claim='CRC strings longer than the fold bound (covered by the step lemma + fold induction argument, not by a query); '
                 'hex parsing of strings longer than the bound',
   level_text='Bounded model checking of the real symbol.cpp kernels: the CRC table step is decided for all 65536 (crc,symbol) pairs against bit-serial polynomial division, the string CRC is decided as a fold of that step over the escaped bytes for all strings up to the bound (step lemma + fold lemma = any length by induction), all 256x256 address pairs for the address-class bijections, and all escaped hex strings up to the bound for parse/unescape. Exhaustive within the bounds by solver verdict, not sampling.',
   level_note='Trusted: clang-14 -O1 lowering, ll2c (cross-checked each run against the native build on witness and random tapes), models/string.c+libc.c (std::string members, strtoul), CBMC and its SAT/SMT back ends. Outside: fold/hex lengths above the bound as a direct query.',
   assumptions=['clang-14 -O1 lowering + ll2c translation (validated per run against the native build on witness and random tapes)',
                'operator new never fails', 'CBMC 6.11 + SAT back end'],
 ),
}
