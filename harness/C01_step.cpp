// C01 -- passive reception, S shape (one inductive step): from ANY passive handler state that is related to a state of
// the independent telegram recogniser by the relation R below, one handler step (handleSend + handleReceive on the real
// PlainDevice, every read outcome symbolic) produces exactly the reports the recogniser produces and ends in R again.
// R holds for the real initial state (checked by C01_passive.cpp with K=1 and here by the INIT variant), so by induction the
// reports agree for byte streams of ANY length; the bound is only the telegram size (master part <= NNMAX+5 symbols).
// DESIGN.md section 4/C01 "S c01_step".
#include "env_bus.h"
static uint8_t tableStep(uint8_t c, uint8_t v) { ebusd::SymbolString::updateCrc(v, &c); return c; }
#ifndef REF_BITSERIAL
#define REF_CRC_STEP(c, v) tableStep(c, v)   // justified by C11/crc_step
#endif
#ifndef NNMAX
#define NNMAX 3
#endif
#define CAP (NNMAX + 5)
#define REF_MAXL CAP
#include "ref_bus.h"

// events of the current step in order (a step sees at most: timeout, AUTO-SYN echo; or one symbol; or one fault)
static uint8_t g_evKind[4], g_evByte[4];
static uint8_t g_nEv = 0;
namespace ebusd {
void env_on_read(uint8_t b, bool) { if (g_nEv < 4) { g_evKind[g_nEv] = 1; g_evByte[g_nEv] = b; } g_nEv++; }
void env_on_write(uint8_t) {}
}

#include "rel_bus.h"

#ifdef VP_NATIVE
#include <cstdio>
#include <cstdlib>
static void dump(const char* tag, DirectProtocolHandler& h, const P& r, TapeTransport* tr) {
  if (!getenv("VP_DEBUG")) return;
  fprintf(stderr, "%s: h.state=%d esc=%02x crc=%02x crcValid=%d repeat=%d cmd[%zu]=", tag, h.m_state, h.m_escape, h.m_crc, h.m_crcValid, h.m_repeat, h.m_command.size());
  for (size_t i = 0; i < h.m_command.size() && i < CAP; i++) fprintf(stderr, "%02x ", h.m_command.data()[i]);
  fprintf(stderr, " res[%zu]=", h.m_response.size());
  for (size_t i = 0; i < h.m_response.size() && i < CAP; i++) fprintf(stderr, "%02x ", h.m_response.data()[i]);
  fprintf(stderr, "| r.ph=%d esc=%d crc=%02x crcOk=%d cmdRep=%d resRep=%d need=%d m[%d]=", r.ph, r.esc, r.crc, r.crcOk, r.cmdRepeat, r.resRepeat, r.need, r.mlen);
  for (int i = 0; i < r.mlen && i < CAP; i++) fprintf(stderr, "%02x ", r.m[i]);
  fprintf(stderr, " s[%d]=", r.slen);
  for (int i = 0; i < r.slen && i < CAP; i++) fprintf(stderr, "%02x ", r.s[i]);
  fprintf(stderr, "| tr.len=%zu buf=%02x %02x nEv=%d ev=%02x %02x\n", tr->m_len, tr->m_buf[0], tr->m_buf[1], g_nEv, g_evByte[0], g_evByte[1]);
}
#else
#define dump(a, b, c, d) ((void)0)
#endif

extern "C" void vp_main() {
  ebus_protocol_config_t cfg = env_config();
  TapeTransport* tr = new TapeTransport();
  tr->m_allowWriteErrors = false;
  PlainDevice* dev = new PlainDevice(tr);
  static RecListener lst;
  DirectProtocolHandler& h = *new DirectProtocolHandler(cfg, dev, &lst);
  static P r;
#ifndef INIT
  // ---- arbitrary recogniser state (within the size bound) ----
  r.ph = vp_nondet_u8(); r.esc = vp_nondet_bool(); r.cmdRepeat = vp_nondet_bool(); r.resRepeat = vp_nondet_bool();
  r.crcOk = vp_nondet_bool(); r.crc = vp_nondet_u8(); r.need = vp_nondet_u8();
  r.mlen = vp_nondet_u8(); r.slen = vp_nondet_u8();
  vp_assume(r.mlen <= CAP && r.slen <= CAP);
  for (int i = 0; i < CAP; i++) { r.m[i] = vp_nondet_u8(); r.s[i] = vp_nondet_u8(); }
  vp_assume(refInv(r));
  // ---- a handler state related to it: every field the relation does not fix is arbitrary ----
  uint8_t hs = vp_nondet_u8();
  vp_assume(hs <= bs_recvResAck);           // passive states only (no request, not answering)
  h.m_state = static_cast<BusState>(hs);
  uint8_t cm[CAP], rs[CAP];
  uint8_t cl = vp_nondet_u8(), rl = vp_nondet_u8();
  vp_assume(cl <= CAP && rl <= CAP);
  for (int i = 0; i < CAP; i++) { cm[i] = vp_nondet_u8(); rs[i] = vp_nondet_u8(); }
  setVec(h.m_command.m_data, cm, cl);
  setVec(h.m_response.m_data, rs, rl);
  h.m_crc = vp_nondet_u8(); h.m_escape = vp_nondet_u8(); h.m_crcValid = vp_nondet_bool(); h.m_repeat = vp_nondet_bool();
  h.m_nextSendPos = vp_nondet_u8();
  h.m_currentAnswering = vp_nondet_bool();   // may be left set in noSignal (rel_bus.h)
  // bookkeeping the passive path updates (lock counters, seen addresses, latency statistics, SYN time): arbitrary, so the
  // step covers every value earlier steps can have left behind
  h.m_remainLockCount = vp_nondet_u8();
  h.m_lockCount = vp_nondet_u8();
  h.m_masterCount = vp_nondet_u8();
  h.m_addressConflict = vp_nondet_bool();
  for (int i = 0; i < 256; i++) h.m_seenAddresses[i] = vp_nondet_bool();
  h.m_symbolLatencyMin = static_cast<int>(vp_nondet_u32()); h.m_symbolLatencyMax = static_cast<int>(vp_nondet_u32());
  h.m_lastSynReceiveTime.tv_sec = static_cast<time_t>(vp_nondet_u32());
  { uint32_t ns = vp_nondet_u32(); vp_assume(ns < 1000000000u); h.m_lastSynReceiveTime.tv_nsec = static_cast<long>(ns); }
  h.m_lastReceive = static_cast<time_t>(vp_nondet_u32());
  if (cfg.generateSyn && vp_nondet_bool()) h.m_generateSynInterval = SYN_INTERVAL;
  h.m_listenerState = static_cast<ProtocolState>(vp_nondet_u8() % 6);
  vp_assume(related(h, r));
  // transport: up to ENV_MAXCHUNK bytes may already be buffered
  uint8_t buffered = vp_nondet_u8();
  vp_assume(buffered <= ENV_MAXCHUNK);
  for (uint8_t i = 0; i < ENV_MAXCHUNK; i++) tr->m_buf[i] = vp_nondet_u8();
  tr->m_len = buffered;
#else
  h.m_command.m_data.reserve(CAP + 2);
  h.m_response.m_data.reserve(CAP + 2);
  vp_assert("initial-state-is-related", related(h, r));
#endif
  Stepper st(&h);
#ifndef INIT
  st.cont = vp_nondet_bool();                // previous receive returned "more buffered"
  vp_assume(!st.cont || tr->m_len >= 1);
  st.result = st.cont ? RESULT_CONTINUE : RESULT_OK;
#endif
  unsigned msgBefore = lst.m_nmsg;
  unsigned faultsBefore = tr->m_nfault;
  g_nEv = 0;
  dump("pre ", h, r, tr);
  st.step();
  dump("post", h, r, tr);
  // ---- replay the step's events on the recogniser, in order: AUTO-SYN = timeout first, then the echoed symbol ----
  vp_assert("harness: at most two symbols per step", g_nEv <= 2);
  bool fault = tr->m_nfault != faultsBefore;
  unsigned reports = 0;
  bool autoSyn = fault && g_nEv >= 1;        // a symbol consumed after a fault = echo of the generated SYN
  if (fault && autoSyn) r.fault();
  if (g_nEv >= 1) { r.sym(g_evByte[0]); if (r.reported) reports++; }
  if (g_nEv >= 2) { r.sym(g_evByte[1]); if (r.reported) reports++; }
  if (fault && !autoSyn) r.fault();
  dump("ref ", h, r, tr);
  vp_known("KF-C01-QQ-NONMASTER", r.sawNonMasterQQ);
  vp_known("KF-C01-ZZ-SELF", r.sawSelfZZ);
  vp_known("KF-C01-ESC-SYN-STALE-CRC", r.escThenSyn);
  unsigned newMsg = lst.m_nmsg - msgBefore;
  vp_assert("reports-exactly-the-valid-telegrams-count", newMsg == reports);
  if (newMsg == 1 && reports == 1) {
    const RecMsg& q = lst.m_msg[0];
    vp_assert("reported-as-received-direction", q.dir == md_recv);
    bool same = q.mlen == r.mlen && q.slen == r.slen;
    for (uint8_t j = 0; j < CAP; j++) {
      if (j < r.mlen && j < q.mlen && q.m[j] != r.m[j]) same = false;
      if (j < r.slen && j < q.slen && q.s[j] != r.s[j]) same = false;
    }
    vp_assert("reported-telegram-has-same-source-destination-command-and-data", same);
#ifndef INIT
    if (r.m[1] == 0xFE) vp_cover("bc-telegram-reported");
    else if (ref::is_master(r.m[1])) vp_cover("mm-telegram-reported");
    else if (r.resRepeat) vp_cover("ms-telegram-reported-after-response-repeat");
    else vp_cover("ms-telegram-reported");
#endif
  }
  // telegrams larger than the buffer bound leave the claim (stated bound NNMAX)
  bool inBound = r.mlen <= CAP && r.slen <= CAP && (r.ph != P::DATA || 5 + r.m[4] <= CAP) && (r.ph != P::RDATA || 1 + r.s[0] <= CAP)
    && (r.ph != P::CRC || r.mlen <= CAP) ;
  if (inBound) {
    vp_assert("relation-preserved (induction step)", related(h, r));
    vp_assert("recogniser-invariant-preserved", refInv(r));
  }
#ifndef INIT
  if (r.ph == P::QQ && r.cmdRepeat) vp_cover("command-repeat-after-nak");
  if (r.ph == P::IDLE && fault) vp_cover("fault-drops-telegram");
#else
  vp_cover("first-step-from-the-initial-state");
#endif
  vp_observe("state", h.m_state);
  vp_observe("ph", r.ph);
}
