// C15 -- answer lookup kernel: real setAnswer / getAnswer / createAnswerKey of DirectProtocolHandler against a
// reference longest-prefix lookup. DESIGN.md section 4/C15 "K c15_lookup".
#include <new>
#include "env_bus.h"
using namespace ebusd;
namespace ebusd {
void env_on_read(uint8_t, bool) {}
void env_on_write(uint8_t) {}
}
#ifndef NREG
#define NREG 2
#endif
#ifndef NNMAX
#define NNMAX 6
#endif
#ifndef IDLEN0
#define IDLEN0 1
#define IDLEN1 2
#endif
#ifndef ALEN
#define ALEN 2
#endif
static bool refMaster(uint8_t a) {
  uint8_t l = a & 0x0f, h = a >> 4;
  bool lo = l == 0 || l == 1 || l == 3 || l == 7 || l == 15, hi = h == 0 || h == 1 || h == 3 || h == 7 || h == 15;
  return lo && hi;
}
struct Reg { bool ok; uint8_t src, dst, pb, sb, idLen, id[4]; uint8_t alen; uint8_t ans[4]; };

extern "C" void vp_main() {
  ebus_protocol_config_t cfg = env_config();
  cfg.answer = true;
  // static (typed) objects instead of heap objects: CBMC's points-to sets are field-insensitive for dynamic objects, which
  // makes every pointer loaded from a heap-allocated handler "point to" everything the handler references
  // Only the members the lookup touches are constructed (m_config.answer, m_answerByKey, m_command, m_response): the full
  // handler (queues, stream, 256-entry address table) makes the encoding intractable and plays no role in the lookup
  DirectProtocolHandler& h = *static_cast<DirectProtocolHandler*>(operator new(sizeof(DirectProtocolHandler)));
  const_cast<ebus_protocol_config_t&>(h.m_config).answer = true;
  new (&h.m_answerByKey) std::map<uint64_t, SlaveSymbolString>();
  new (&h.m_command) MasterSymbolString();
  new (&h.m_response) SlaveSymbolString();
  Reg reg[NREG];
  for (int i = 0; i < NREG; i++) {
    Reg& g = reg[i];
    g.src = vp_nondet_u8(); g.dst = vp_nondet_u8(); g.pb = vp_nondet_u8(); g.sb = vp_nondet_u8();
    // the structure (ID lengths, telegram length) is a job parameter: concrete sizes keep every container loop bounded exactly
    g.idLen = i == 0 ? (IDLEN0) : (IDLEN1);
    for (int k = 0; k < 4; k++) g.id[k] = vp_nondet_u8();
    // answer: slave answers are complete "NN data" strings (NN <= 2), MM "answers" only carry the expected tail length
    g.alen = ALEN;
    SlaveSymbolString a;
    a.m_data.reserve(8);
    for (int k = 0; k < 3; k++) { g.ans[k] = vp_nondet_u8(); }
    g.ans[0] = static_cast<uint8_t>(g.alen - 1);
    for (int k = 0; k < ALEN; k++) a.push_back(g.ans[k]);
    g.ok = h.DirectProtocolHandler::setAnswer(g.src, g.dst, g.pb, g.sb, g.id, g.idLen, a);
    // documented registration rule: valid non-broadcast destination, source SYN (= any) or a master
    bool refOk = g.dst != 0xAA && g.dst != 0xA9 && g.dst != 0xFE && (g.src == 0xAA || refMaster(g.src));
    vp_assert("registration-accepted-iff-valid-addresses", g.ok == refOk);
  }
  // received telegram (CRC already checked by the caller)
  const uint8_t nn = NNMAX;
  uint8_t t[5 + NNMAX];
  for (int k = 0; k < 5 + NNMAX; k++) t[k] = vp_nondet_u8();
  t[4] = nn;
  vp_assume(refMaster(t[0]) && t[1] != 0xAA && t[1] != 0xA9 && t[1] != t[0]);
  h.m_command.m_data.reserve(5 + NNMAX + 2);
  for (int k = 0; k < 5 + NNMAX; k++) h.m_command.push_back(t[k]);
  h.m_response.m_data.reserve(8);
  vp_known("KF-C15-NN-GT4-SHIFT", nn > 4);
  bool found = h.getAnswer();
  // ---- reference: longest matching ID prefix, specific source before any source, later registration replaces equal key
  int best = -1;
  bool dstMaster = refMaster(t[1]);
  for (int i = 0; i < NREG; i++) {
    const Reg& g = reg[i];
    if (!g.ok) continue;
    bool m = g.dst == t[1] && g.pb == t[2] && g.sb == t[3] && g.idLen <= nn && (g.src == 0xAA || g.src == t[0]);
    for (int k = 0; k < 4; k++) if (k < g.idLen && g.id[k] != t[5 + k]) m = false;
    if (dstMaster && m) m = g.idLen + (g.alen - 1 < g.ans[0] ? g.alen - 1 : g.ans[0]) == nn;  // MM: id + expected tail = NN
    if (!m) continue;
    if (best < 0) { best = i; continue; }
    const Reg& b = reg[best];
    bool sameKey = b.idLen == g.idLen && (b.src == 0xAA) == (g.src == 0xAA);  // dst/pb/sb/id equal since both match
    if (g.idLen > b.idLen || (g.idLen == b.idLen && g.src != 0xAA && b.src == 0xAA) || sameKey) best = i;
  }
  vp_assert("answer-found-iff-a-registered-answer-matches", found == (best >= 0));
  if (found && best >= 0) {
    const Reg& g = reg[best];
    bool same = h.m_response.size() == g.alen;
    for (int k = 0; k < 3; k++) if (k < g.alen && k < static_cast<int>(h.m_response.size()) && h.m_response.data()[k] != g.ans[k]) same = false;
    vp_assert("chosen-answer-is-the-longest-matching-prefix", same);
    if (reg[best].idLen >= 1 && NREG > 1 && reg[0].ok && reg[1].ok && reg[0].idLen != reg[1].idLen) vp_cover("two-candidates-longest-wins");
    if (nn > reg[best].idLen && !dstMaster) vp_cover("telegram-longer-than-id");
  }
  if (!found && nn >= 1) vp_cover("no-answer");
  vp_observe("found", found);
}
