#include "vp.h"
#include <map>
#include <vector>
struct Base { virtual ~Base() {} virtual int f() { return 1; } int pad[40]; };
struct Holder : Base { std::map<uint64_t, std::vector<uint8_t> > m; Base* other; int f() override { return 2; } };
static Holder g_h;
extern "C" void vp_main() {
  static Holder h;
  h.other = &g_h;
  uint64_t k1 = vp_nondet_u64(), k2 = vp_nondet_u64();
  std::vector<uint8_t> a; a.reserve(4); a.push_back(1);
  h.m[k1] = a;
  h.m[k2] = a;
  auto it = h.m.find(k1);
  vp_assert("found", it != h.m.end());
  vp_assert("size", h.m.size() == (k1 == k2 ? 1u : 2u));
  vp_assert("virt", h.other->f() == 2);
}
