// Independent reference monitors for the bus harnesses, written from the eBUS rules quoted in symbol.h's header
// comment and the property statements -- not from protocol_direct.cpp. Incremental and loop-free per symbol.
#ifndef REF_BUS_H
#define REF_BUS_H
#include <stdint.h>
#ifndef REF_MAXL
#define REF_MAXL 24
#endif
// REF_CRC_STEP: per-symbol CRC step used by the monitors; harnesses may define it as the real table step, which
// C11/crc_step proves equal to the bit-serial division below for all 65536 inputs
namespace ref {

static inline uint8_t crc_step(uint8_t crc, uint8_t data) {  // x^8+x^7+x^4+x^3+x+1, bit serial (C11 proves the table equal)
  for (int i = 0; i < 8; i++) {
    uint8_t poly = (crc & 0x80) ? 0x9B : 0;
    crc = static_cast<uint8_t>((crc & 0x7f) << 1);
    if (data & 0x80) crc |= 1;
    crc ^= poly;
    data = static_cast<uint8_t>(data << 1);
  }
  return crc;
}
#ifndef REF_CRC_STEP
#define REF_CRC_STEP(c, v) ref::crc_step(c, v)
#endif
static inline bool nib_ok(uint8_t n) { return n == 0x0 || n == 0x1 || n == 0x3 || n == 0x7 || n == 0xF; }
static inline bool is_master(uint8_t a) { return nib_ok(a & 0x0f) && nib_ok(a >> 4); }
static inline bool valid_addr(uint8_t a) { return a != 0xAA && a != 0xA9; }

/** passive telegram recogniser over the received symbol stream */
struct Parser {
  enum Ph : uint8_t { IDLE, QQ, ZZ, PB, SB, NN, DATA, CRC, CMDACK, RNN, RDATA, RCRC, RESACK };
  uint8_t ph;
  bool esc, cmdRepeat, resRepeat, crcOk;
  uint8_t crc, need;
  uint8_t m[REF_MAXL], s[REF_MAXL];
  uint8_t mlen, slen;
  unsigned nreports;      // telegrams recognised so far
  bool reported;          // a telegram was completed by the last symbol
  bool sawNonMasterQQ;    // a symbol that is not a master address was seen in source position since the last SYN
  bool sawSelfZZ;         // destination equal to the source was seen since the last SYN (known-finding region only)
  bool escThenSyn;        // SYN directly after a lone ESC in source position, sticky until the following telegram ends (known-finding region only)
  Parser() : ph(IDLE), esc(false), cmdRepeat(false), resRepeat(false), crcOk(false), crc(0), need(0), mlen(0), slen(0),
             nreports(0), reported(false), sawNonMasterQQ(false), sawSelfZZ(false), escThenSyn(false) {}
  void drop() { if (ph != QQ) escThenSyn = false; ph = IDLE; esc = false; }
  void fault() { reported = false; drop(); }
  void syn() { reported = false; if (ph == QQ && esc) escThenSyn = true; sawSelfZZ = false; ph = QQ; esc = false; cmdRepeat = resRepeat = false; crc = 0; mlen = slen = 0; sawNonMasterQQ = false; }
  void pushM(uint8_t v) { if (mlen < REF_MAXL) m[mlen] = v; mlen++; }
  void pushS(uint8_t v) { if (slen < REF_MAXL) s[slen] = v; slen++; }
  void complete() { reported = true; nreports++; ph = IDLE; esc = false; escThenSyn = false; }
  /** one received symbol (raw, as on the wire) */
  void sym(uint8_t raw) {
    reported = false;
    if (raw == 0xAA) { syn(); return; }
    if (ph == IDLE) return;
    bool dataPhase = ph <= DATA || ph == RNN || ph == RDATA;  // phases whose raw symbols are covered by the CRC
    if (dataPhase) crc = REF_CRC_STEP(crc, raw);
    uint8_t v = raw;
    if (esc) {
      if (raw > 1) { drop(); return; }
      v = raw == 0 ? 0xA9 : 0xAA;
      esc = false;
    } else if (raw == 0xA9) {
      esc = true;
      return;
    }
    switch (ph) {
      case QQ:
        if (!is_master(v)) { sawNonMasterQQ = true; drop(); return; }
        mlen = 0; pushM(v); ph = ZZ; return;
      case ZZ:
        if (!valid_addr(v) || v == m[0]) { if (valid_addr(v)) sawSelfZZ = true; drop(); return; }
        pushM(v); ph = PB; return;
      case PB: pushM(v); ph = SB; return;
      case SB: pushM(v); ph = NN; return;
      case NN: pushM(v); need = v; ph = need ? DATA : CRC; return;
      case DATA: pushM(v); if (--need == 0) ph = CRC; return;
      case CRC:
        crcOk = v == crc;
        if (m[1] == 0xFE) { if (crcOk) complete(); else drop(); return; }
        if (!crcOk && cmdRepeat) { drop(); return; }
        ph = CMDACK; return;
      case CMDACK:
        if (v == 0x00) {
          if (!crcOk) { drop(); return; }
          if (is_master(m[1])) { slen = 0; complete(); return; }
          ph = RNN; crc = 0; slen = 0; resRepeat = false; return;
        }
        if (v == 0xFF && !cmdRepeat) { cmdRepeat = true; crc = 0; mlen = 0; ph = QQ; return; }
        drop(); return;
      case RNN: slen = 0; pushS(v); need = v; ph = need ? RDATA : RCRC; return;
      case RDATA: pushS(v); if (--need == 0) ph = RCRC; return;
      case RCRC:
        crcOk = v == crc;
        if (!crcOk && resRepeat) { drop(); return; }
        ph = RESACK; return;
      case RESACK:
        if (v == 0x00) { if (crcOk) complete(); else drop(); return; }
        if (v == 0xFF && !resRepeat) { resRepeat = true; crc = 0; slen = 0; ph = RNN; return; }
        drop(); return;
      default: return;
    }
  }
};

/** monitor of one own (active) exchange, written from the statement of C02: after the echo of the arbitration address
 * the remaining master bytes are sent escaped, then the CRC of the escaped sequence (escaped itself), one repetition
 * after a NAK, ACK/NAK of the slave response by its CRC (one re-read), final SYN. The symbols on the wire during an own
 * exchange form a telegram like any other, so the passive recogniser tracks them; this overlay adds who is sending. */
struct Sender {
  Parser p;
  bool arb;       // own arbitration address was written directly after the SYN, its echo is awaited
  bool own;       // arbitration won: the telegram on the wire is ours
  bool endSyn;    // the exchange was ended by us and the closing SYN is due
  uint8_t M[REF_MAXL];  // master part of the request (unescaped), M[4] = NN
  // outcome of the last event
  bool done, ok, mayEndSyn, lost;
  Sender() : arb(false), own(false), endSyn(false), done(false), ok(false), mayEndSyn(false), lost(false) {}
  /** the symbol the sender has to put on the wire next, if any */
  bool expectWrite(uint8_t* w) const {
    if (endSyn) { *w = 0xAA; return true; }
    if (!own) return false;
    uint8_t u;
    switch (p.ph) {
      case Parser::QQ: u = M[0]; break;  // repetition after NAK starts with the source address again
      case Parser::ZZ: case Parser::PB: case Parser::SB: case Parser::NN: case Parser::DATA: u = M[p.mlen < REF_MAXL ? p.mlen : 0]; break;
      case Parser::CRC: u = p.crc; break;
      case Parser::RESACK: *w = p.crcOk ? 0x00 : 0xFF; return true;
      default: return false;
    }
    if (p.esc) *w = u == 0xA9 ? 0x00 : 0x01;
    else if (u == 0xA9 || u == 0xAA) *w = 0xA9;
    else *w = u;
    return true;
  }
  void fault() {
    done = own; ok = false; mayEndSyn = false; lost = arb;
    own = arb = endSyn = false;
    p.fault();
  }
  /** one symbol read from the wire; wrote/w: the symbol this side wrote just before (its echo is expected) */
  void sym(bool wrote, uint8_t w, uint8_t raw) {
    done = ok = mayEndSyn = lost = false;
    if (endSyn) { endSyn = false; p.sym(raw); return; }
    if (arb) {
      arb = false;
      p.sym(raw);
      if (raw == M[0]) own = true; else lost = true;
      return;
    }
    if (!own) { p.sym(raw); return; }
    if (raw == 0xAA) { p.sym(raw); own = false; done = true; return; }                      // truncated by SYN
    if (wrote && raw != w) { p.reported = false; p.drop(); own = false; done = true; return; }  // echo mismatch: silent until SYN
    p.sym(raw);
    if (p.reported) { own = false; done = true; ok = true; endSyn = true; return; }
    if (p.ph == Parser::IDLE) { own = false; done = true; mayEndSyn = true; }                // protocol-level failure
  }
};

/** monitor of an answer given in answer mode, written from the statement of C15: acknowledge a CRC-correct telegram that
 * matches a registered answer, then (slave destination) send length, escaped data and CRC, repeat once on NAK. The
 * recogniser tracks the wire; this overlay adds that this side is the addressed participant. */
struct Answerer {
  Parser p;
  bool ans;              // answering the telegram the recogniser is in
  uint8_t A[REF_MAXL];   // the registered answer: A[0] = NN, then the data bytes
  bool done, ok;         // outcome of the last event: the answer exchange ended / ended completely
  Answerer() : ans(false), done(false), ok(false) {}
  bool expectWrite(uint8_t* w) const {
    if (!ans) return false;
    uint8_t u;
    switch (p.ph) {
      case Parser::CMDACK: *w = 0x00; return true;   // only CRC-correct telegrams are answered
      case Parser::RNN: case Parser::RDATA: u = A[p.slen < REF_MAXL ? p.slen : 0]; break;
      case Parser::RCRC: u = p.crc; break;
      default: return false;
    }
    if (p.esc) *w = u == 0xA9 ? 0x00 : 0x01;
    else if (u == 0xA9 || u == 0xAA) *w = 0xA9;
    else *w = u;
    return true;
  }
  void fault() { done = ans; ok = false; ans = false; p.fault(); }
  void sym(bool wrote, uint8_t w, uint8_t raw) {
    done = ok = false;
    if (!ans) { p.sym(raw); return; }
    if (raw == 0xAA) { p.sym(raw); ans = false; done = true; return; }
    if (wrote && raw != w) { p.reported = false; p.drop(); ans = false; done = true; return; }   // echo mismatch: silent until SYN
    p.sym(raw);
    if (p.reported) { ans = false; done = true; ok = true; return; }
    if (p.ph == Parser::IDLE) { ans = false; done = true; }
  }
};

}  // namespace ref
#endif
