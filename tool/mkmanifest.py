#!/usr/bin/env python3
# regenerates MANIFEST.json from harness/registry.py META (single source of truth for claims)
import json, os, sys
here = os.path.dirname(os.path.dirname(os.path.abspath(__file__)))
sys.path.insert(0, here); sys.path.insert(0, os.path.join(here, 'harness'))
import registry
props = [json.loads(l) for l in open(os.path.join(here, 'properties.jsonl'))]
checks, na = [], []
for p in props:
    pid = p['id']
    m = registry.META.get(pid)
    if m and m.get('claimed', True):
        checks.append({
            'property_id': pid,
            'quick_cmd': './check %s --tier quick' % pid,
            'thorough_cmd': './check %s --tier thorough' % pid,
            'evidence_file': 'evidence/%s.json' % pid,
            'replay_cmd_template': './check %s --replay {path}' % pid,
            'engine': 'll2c+cbmc',
            'level_claimed': {'category': 'model_checking', 'text': m['level_text'], 'design_ref': m.get('design_ref', 'DESIGN.md section 4/' + pid)},
            'level_note': m['level_note'],
            'technique': m.get('technique', 'bounded symbolic execution of the real functions (clang IR -> C -> CBMC, SAT/SMT verdict over all inputs within stated bounds), counterexamples replayed on the native build'),
        })
    else:
        na.append({'property_id': pid, 'reason': (m or {}).get('na_reason', 'no deciding harness built yet in this round; see DESIGN.md section 4/%s for the planned encoding' % pid)})
man = {
    'version': 1,
    'setup_cmd': 'tool/build.sh',
    'hooks': {'guard': 'EBUSD_VERIF', 'enable': 'none needed: harnesses include the real sources with -fno-access-control; no source hooks are compiled in',
              'baseline_off_cmd': 'cmake -G Ninja -B /repo/_build -S /repo && cmake --build /repo/_build && ctest --test-dir /repo/_build -j8 --timeout 900',
              'source_commits': [], 'add_only': True},
    'engines': [{'name': 'll2c+cbmc', 'path': 'tool/ll2c.cpp, vplib/, models/', 'serves_properties': [c['property_id'] for c in checks],
                 'kind_free_text': 'clang++-14 IR of harness + real ebusd sources -> own LLVM-API translator (ll2c) -> C + environment models -> CBMC 6.11 (MiniSat/CaDiCaL/kissat/z3/cvc5); native g++ ASan/UBSan replay of every counterexample and witness; gcc build of generated C diffed against native on recorded and random tapes'}],
    'checks': checks,
    'not_applicable': na,
    'notes': 'exit codes of ./check: 0 held, 1 VIOLATION (replayed natively), 2 machinery broken (vacuous harness, unconfirmed counterexample, translator mismatch), 3 inconclusive (timeout / unwinding bound). Known findings: known_findings.json.',
}
json.dump(man, open(os.path.join(here, 'MANIFEST.json'), 'w'), indent=1)
print('claimed:', [c['property_id'] for c in checks])
