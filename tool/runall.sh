#!/bin/bash
# run the quick (or thorough) tier of every claimed property one after the other; summary on stdout
tier=${1:-quick}
cd /verif
rc=0
for id in $(python3 -c "import json;print(' '.join(c['property_id'] for c in json.load(open('MANIFEST.json'))['checks']))"); do
  s=$(date +%s)
  ./check $id --tier $tier > /tmp/runall_$id.log 2>&1
  r=$?
  echo "$id rc=$r $(( $(date +%s) - s ))s  $(tail -1 /tmp/runall_$id.log | cut -c1-120)"
  [ $r -ne 0 ] && rc=1
done
exit $rc
