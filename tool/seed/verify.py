#!/usr/bin/env python3
# usage: verify.py <id> -- confirms a seeded change in /tmp/seed/<id>: compiles, ctest passes, demo fails with / passes without
import re, subprocess, sys, os
W = '/tmp/seed/' + sys.argv[1]
os.chdir(W)
def sh(c, **k): return subprocess.run(c, shell=True, stdout=subprocess.PIPE, stderr=subprocess.STDOUT, text=True, **k)
src = open('demo.cpp').read().splitlines()
cmd = []; on = False
for l in src[:60]:
    t = re.sub(r'^\s*(//|\*|/\*)\s?', '', l).rstrip()
    if not on and re.search(r'\bg\+\+\s', t): on = True
    if on:
        cmd.append(t.rstrip('\\').strip())
        if not t.endswith('\\'): break
cmd = ' '.join(cmd)
cmd = cmd.split('&&')[0].strip()
m = re.search(r'-o\s+(\S+)', cmd); exe = m.group(1) if m else './a.out'
if '/' not in exe: exe = './' + exe
print('compile:', cmd)
def state():
    return sh('git diff --stat -- src | tail -1').stdout.strip()
# make sure the patch is applied
if not state():
    print(sh('git apply patch.diff').stdout)
print('patched:', state())
r = sh('cmake --build _build 2>&1 | tail -1; ctest --test-dir _build -j8 2>&1 | grep -E "tests passed|tests failed"'); print(r.stdout.strip())
r = sh(cmd); 
if r.returncode: print('demo compile failed:', r.stdout[-500:])
r1 = sh(exe, timeout=300); print('WITH change: demo exit', r1.returncode, '|', r1.stdout.strip().splitlines()[-1:] )
sh('git apply -R patch.diff')
print('reverted:', repr(state()))
r = sh(cmd)
r0 = sh(exe, timeout=300); print('WITHOUT change: demo exit', r0.returncode)
sh('git apply patch.diff')
print('VERDICT', 'CONFIRMED' if (r1.returncode != 0 and r0.returncode == 0) else 'NOT-CONFIRMED')
