// ll2c: LLVM-14 IR (typed pointers) -> plain C for CBMC / gcc.
// Part of /verif (solver-based checking of john30/ebusd). See DESIGN.md 2.3.
//
// usage: ll2c in.bc|in.ll -o out.c [--entry vp_main]
//
// * only functions/globals reachable from the entry and the global ctors are emitted
// * functions without body are emitted as prototypes "vpx_<name>" with every pointer
//   parameter/return typed void*; models/*.c define them
// * unsupported IR is a hard error naming the instruction
#include "llvm/IR/LLVMContext.h"
#include "llvm/IR/Module.h"
#include "llvm/IR/Instructions.h"
#include "llvm/IR/IntrinsicInst.h"
#include "llvm/IR/Operator.h"
#include "llvm/IR/Constants.h"
#include "llvm/IR/DataLayout.h"
#include "llvm/IR/DebugInfoMetadata.h"
#include "llvm/IR/CFG.h"
#include "llvm/IRReader/IRReader.h"
#include "llvm/Support/SourceMgr.h"
#include "llvm/Support/raw_ostream.h"
#include "llvm/Bitcode/BitcodeWriter.h"
#include "llvm/Support/FileSystem.h"
#include <map>
#include <set>
#include <string>
#include <vector>
#include <sstream>
#include <fstream>
#include <functional>
#include <algorithm>
using namespace llvm;
using std::string;

static void die(const string& msg) {
  errs() << "ll2c: error: " << msg << "\n";
  exit(2);
}
static string str(const Value* v) {
  string s; raw_string_ostream os(s); v->print(os); return os.str();
}
static string tstr(Type* t) {
  string s; raw_string_ostream os(s); t->print(os); return os.str();
}

struct Ctx {
  Module* M;
  const DataLayout* DL;
  std::map<Type*, string> tyName;           // struct/array/pointer/function typedef names
  std::vector<StructType*> structOrder;     // definition order
  std::vector<Type*> arrayOrder;
  std::set<Type*> defined;                  // aggregate types defined
  std::ostringstream typeFwd, typeDefs;     // type section
  std::map<const GlobalValue*, string> gName;
  std::set<string> usedNames;
  std::set<const Function*> reachF;
  std::set<const GlobalVariable*> reachG;
  std::vector<const GlobalVariable*> gOrder;
  std::vector<const Function*> fOrder;
  int tyCounter = 0;
};
static Ctx C;

// ---------------------------------------------------------------- names
static string sanitize(StringRef n) {
  string s;
  for (char c : n) s += (isalnum((unsigned char)c) || c == '_') ? c : '_';
  if (s.empty() || isdigit((unsigned char)s[0])) s = "g_" + s;
  return s;
}
static bool isExternalDecl(const GlobalValue* g) {
  if (auto* F = dyn_cast<Function>(g)) return F->isDeclaration();
  if (auto* V = dyn_cast<GlobalVariable>(g)) return V->isDeclaration();
  return false;
}
static string gname(const GlobalValue* g) {
  auto it = C.gName.find(g);
  if (it != C.gName.end()) return it->second;
  string base = sanitize(g->getName());
  if (isExternalDecl(g)) {
    base = "vpx_" + base;
  } else if (base != g->getName().str() || g->hasLocalLinkage()) {
    // private/internal or mangled with dots: make unique
    string b = base; int k = 0;
    while (C.usedNames.count(base)) base = b + "_" + std::to_string(++k);
  }
  C.usedNames.insert(base);
  C.gName[g] = base;
  return base;
}

// ---------------------------------------------------------------- types
static string cty(Type* t);

static unsigned containerBits(unsigned w) {
  if (w <= 8) return 8; if (w <= 16) return 16; if (w <= 32) return 32; if (w <= 64) return 64;
  if (w <= 128) return 128;
  die("integer width > 128: " + std::to_string(w));
  return 0;
}
static string ity(unsigned w) { return "u" + std::to_string(containerBits(w)); }
static string sty(unsigned w) { return "i" + std::to_string(containerBits(w)); }

static void defineAggregate(Type* t);

static string cty(Type* t) {
  if (t->isVoidTy()) return "void";
  if (t->isIntegerTy()) return ity(t->getIntegerBitWidth());
  if (t->isFloatTy()) return "float";
  if (t->isDoubleTy()) return "double";
  if (t->isX86_FP80Ty()) return "long double";
  auto it = C.tyName.find(t);
  if (it != C.tyName.end()) return it->second;
  if (auto* st = dyn_cast<StructType>(t)) {
    // named LLVM structs keep a stable C tag derived from their name, so that models/*.c can declare the very same
    // struct type (same tag, same fields f0..fn): CBMC then sees typed field accesses in model code instead of type-punned
    // byte accesses (which wreck its points-to sets and constant propagation for the enclosing object)
    string n;
    if (st->hasName()) {
      n = "struct T_" + sanitize(st->getName());
      if (C.usedNames.count(n)) n += "_" + std::to_string(C.tyCounter++);
      C.usedNames.insert(n);
    } else n = "struct S" + std::to_string(C.tyCounter++);
    C.tyName[t] = n;
    C.typeFwd << n << "; /* " << (st->hasName() ? st->getName().str() : tstr(t)) << " */\n";
    C.structOrder.push_back(st);
    return n;
  }
  if (auto* at = dyn_cast<ArrayType>(t)) {
    string n = "struct A" + std::to_string(C.tyCounter++);
    C.tyName[t] = n;
    C.typeFwd << n << "; /* " << tstr(t) << " */\n";
    C.arrayOrder.push_back(at);
    return n;
  }
  if (auto* pt = dyn_cast<PointerType>(t)) {
    if (pt->isOpaque()) die("opaque pointers not supported (need -Xclang -no-opaque-pointers / LLVM14 default)");
    Type* e = pt->getPointerElementType();
    string n;
    if (auto* ft = dyn_cast<FunctionType>(e)) {
      n = "FP" + std::to_string(C.tyCounter++);
      C.tyName[t] = n;
      string ret = cty(ft->getReturnType());
      string s = "typedef " + ret + " (*" + n + ")(";
      bool first = true;
      for (Type* p : ft->params()) { if (!first) s += ", "; s += cty(p); first = false; }
      if (ft->isVarArg()) s += first ? "" : ", ...";
      else if (first) s += "void";
      s += ");\n";
      C.typeFwd << s;
      return n;
    }
    string en = cty(e);
    C.tyName[t] = en + "*";
    return en + "*";
  }
  if (t->isFunctionTy()) die("bare function type as value type");
  die("unsupported type: " + tstr(t));
  return "";
}

static void defineAggregate(Type* t) {
  if (C.defined.count(t)) return;
  if (auto* st = dyn_cast<StructType>(t)) {
    if (st->isOpaque()) { C.defined.insert(t); return; }
    C.defined.insert(t);
    std::ostringstream body;
    const StructLayout* SL = C.DL->getStructLayout(st);
    string n = cty(t);
    for (unsigned i = 0; i < st->getNumElements(); i++) {
      Type* e = st->getElementType(i);
      if (e->isStructTy() || e->isArrayTy()) defineAggregate(e);
      body << "  " << cty(e) << " f" << i << ";\n";
    }
    if (st->getNumElements() == 0) body << "  /* empty */\n";
    C.typeDefs << n << " {\n" << body.str() << "}" << (st->isPacked() ? " __attribute__((packed))" : "") << ";\n";
    if (st->getNumElements() > 0) {
      C.typeDefs << "_Static_assert(sizeof(" << n << ")==" << SL->getSizeInBytes() << ", \"size " << n << "\");\n";
      for (unsigned i = 0; i < st->getNumElements(); i++)
        C.typeDefs << "_Static_assert(__builtin_offsetof(" << n << ",f" << i << ")==" << SL->getElementOffset(i) << ", \"off\");\n";
    }
    return;
  }
  if (auto* at = dyn_cast<ArrayType>(t)) {
    C.defined.insert(t);
    Type* e = at->getElementType();
    if (e->isStructTy() || e->isArrayTy()) defineAggregate(e);
    string n = cty(t);
    C.typeDefs << n << " { " << cty(e) << " a[" << at->getNumElements() << "]; };\n";
    return;
  }
}

// ---------------------------------------------------------------- constants / expressions
struct FnCtx {
  const Function* F = nullptr;
  std::map<const Value*, string> names;
  int counter = 0;
};
static FnCtx* FC = nullptr;

static string val(const Value* v);
static string constExpr(const Constant* c, bool initMode);

static string sextExpr(unsigned w, const string& x) {  // -> i64 expression (i128 for w>64)
  if (w > 64) return "((i128)((u128)(" + x + ") << " + std::to_string(128 - w) + ") >> " + std::to_string(128 - w) + ")";
  if (w == 64) return "((i64)(" + x + "))";
  if (w == 32) return "((i64)(i32)(" + x + "))";
  if (w == 16) return "((i64)(i16)(" + x + "))";
  if (w == 8) return "((i64)(i8)(" + x + "))";
  return "((i64)((u64)(" + x + ") << " + std::to_string(64 - w) + ") >> " + std::to_string(64 - w) + ")";
}
static string maskExpr(unsigned w, const string& x) {  // truncate container to w bits
  unsigned cb = containerBits(w);
  if (cb == w) return "((" + ity(w) + ")(" + x + "))";
  if (w > 64) die("odd width >64");
  unsigned long long m = (w == 64) ? ~0ULL : ((1ULL << w) - 1);
  return "((" + ity(w) + ")((" + x + ") & " + std::to_string(m) + "ULL))";
}
static string wideTy(unsigned w) { return w <= 32 ? "u32" : (w <= 64 ? "u64" : "u128"); }

static string fpLiteral(const APFloat& f, Type* t) {
  char buf[128];
  if (t->isFloatTy()) {
    uint32_t bits = (uint32_t)f.bitcastToAPInt().getZExtValue();
    float v; memcpy(&v, &bits, 4);
    if (v != v || v - v != 0) { snprintf(buf, sizeof buf, "vp_bits2f(0x%xU)", bits); return buf; }
    snprintf(buf, sizeof buf, "%af", v); return string("(") + buf + ")";
  }
  if (t->isDoubleTy()) {
    uint64_t bits = f.bitcastToAPInt().getZExtValue();
    double v; memcpy(&v, &bits, 8);
    if (v != v || v - v != 0) { snprintf(buf, sizeof buf, "vp_bits2d(0x%llxULL)", (unsigned long long)bits); return buf; }
    snprintf(buf, sizeof buf, "%a", v); return string("(") + buf + ")";
  }
  die("unsupported fp constant type");
  return "";
}

static string gepExpr(Type* srcElemTy, const Value* base, ArrayRef<const Value*> idx, Type* resultPtrTy, bool* asLvalue = nullptr) {
  // &base[i0].fK.a[i]...
  string e = "(" + val(base) + ")";
  Type* cur = srcElemTy;
  bool first = true;
  string acc;
  for (const Value* iv : idx) {
    string is;
    if (auto* ci = dyn_cast<ConstantInt>(iv)) is = std::to_string(ci->getSExtValue());
    else is = sextExpr(iv->getType()->getIntegerBitWidth(), val(iv));
    if (first) {
      acc = e + "[" + is + "]";
      first = false;
    } else if (auto* st = dyn_cast<StructType>(cur)) {
      auto* ci = dyn_cast<ConstantInt>(iv);
      if (!ci) die("non-constant struct index in GEP");
      acc += ".f" + std::to_string(ci->getZExtValue());
      cur = st->getElementType(ci->getZExtValue());
    } else if (auto* at = dyn_cast<ArrayType>(cur)) {
      acc += ".a[" + is + "]";
      cur = at->getElementType();
    } else {
      die("GEP into non-aggregate: " + tstr(cur));
    }
  }
  if (cur->isFunctionTy()) die("GEP to function");
  if (asLvalue) {
    if (resultPtrTy->getPointerElementType() == cur && !cur->isAggregateType()) { *asLvalue = true; return acc; }
    *asLvalue = false;
  }
  return "((" + cty(resultPtrTy) + ")&" + acc + ")";
}

static bool resolveBase(const Value* p, const Value*& base, uint64_t& off);
// member path inside T at byte offset off whose type is exactly 'want' ("" path = T itself)
static bool memberPathAt(Type* T, uint64_t off, Type* want, string& path, int depth = 0) {
  if (T == want && off == 0) return true;
  if (depth > 12) return false;
  if (auto* st = dyn_cast<StructType>(T)) {
    if (st->isOpaque() || st->getNumElements() == 0) return false;
    const StructLayout* SL = C.DL->getStructLayout(st);
    if (off >= SL->getSizeInBytes()) return false;
    unsigned i = SL->getElementContainingOffset(off);
    // zero-sized leading members can share the offset: take the last field starting at or before off that has size
    string p2 = path + ".f" + std::to_string(i);
    if (memberPathAt(st->getElementType(i), off - SL->getElementOffset(i), want, p2, depth + 1)) { path = p2; return true; }
    return false;
  }
  if (auto* at = dyn_cast<ArrayType>(T)) {
    uint64_t es = C.DL->getTypeAllocSize(at->getElementType());
    if (es == 0) return false;
    uint64_t i = off / es;
    if (i >= at->getNumElements()) return false;
    string p2 = path + ".a[" + std::to_string(i) + "]";
    if (memberPathAt(at->getElementType(), off - i * es, want, p2, depth + 1)) { path = p2; return true; }
    return false;
  }
  return false;
}
// pointer cast expressed as a member address when the target is a subobject of the (typed) base object: CBMC then
// sees a field access instead of a byte-offset access (keeps its value sets and constant propagation field-sensitive)
// relaxed variant: the subobject at 'off' that has the same size as 'want' (or a scalar leaf) -- result needs a cast
static bool memberPathAtSized(Type* T, uint64_t off, Type* want, string& path, int depth = 0) {
  if (depth > 12) return false;
  uint64_t ws = want->isSized() ? C.DL->getTypeAllocSize(want) : 0;
  if (off == 0 && ws != 0 && T->isSized() && C.DL->getTypeAllocSize(T) == ws && !(T->isStructTy() && want->isStructTy() == false && cast<StructType>(T)->getNumElements() == 1)) {
    if (!T->isArrayTy()) return true;
  }
  if (auto* st = dyn_cast<StructType>(T)) {
    if (st->isOpaque() || st->getNumElements() == 0) return false;
    const StructLayout* SL = C.DL->getStructLayout(st);
    if (off >= SL->getSizeInBytes()) return false;
    unsigned i = SL->getElementContainingOffset(off);
    string p2 = path + ".f" + std::to_string(i);
    if (memberPathAtSized(st->getElementType(i), off - SL->getElementOffset(i), want, p2, depth + 1)) { path = p2; return true; }
    return false;
  }
  if (auto* at = dyn_cast<ArrayType>(T)) {
    uint64_t es = C.DL->getTypeAllocSize(at->getElementType());
    if (es == 0) return false;
    uint64_t i = off / es;
    if (i >= at->getNumElements()) return false;
    string p2 = path + ".a[" + std::to_string(i) + "]";
    if (memberPathAtSized(at->getElementType(), off - i * es, want, p2, depth + 1)) { path = p2; return true; }
    return false;
  }
  return off == 0 && ws != 0 && C.DL->getTypeAllocSize(T) == ws;
}
static bool ptrCastAsMember(const Value* src, Type* dstTy, string& out) {
  if (!dstTy->isPointerTy()) return false;
  Type* want = dstTy->getPointerElementType();
  if (want->isFunctionTy() || want->isIntegerTy(8)) return false;
  const Value* base; uint64_t off;
  if (!resolveBase(src, base, off)) return false;
  Type* bt = base->getType()->getPointerElementType();
  if (!(bt->isStructTy() || bt->isArrayTy())) return false;
  if (bt == want && off == 0) return false;
  string path;
  if (memberPathAt(bt, off, want, path)) {
    defineAggregate(bt);
    out = "(&(*(" + val(base) + "))" + path + ")";
    return true;
  }
  path.clear();
  if (want->isSized() && memberPathAtSized(bt, off, want, path) && !path.empty()) {
    defineAggregate(bt);
    out = "((" + cty(dstTy) + ")&(*(" + val(base) + "))" + path + ")";
    return true;
  }
  return false;
}
static string castExpr(unsigned opc, const Value* src, Type* dstTy) {
  Type* sTy = src->getType();
  string s = val(src);
  switch (opc) {
  case Instruction::Trunc: return maskExpr(dstTy->getIntegerBitWidth(), s);
  case Instruction::ZExt: return "((" + cty(dstTy) + ")(" + s + "))";
  case Instruction::SExt: return maskExpr(dstTy->getIntegerBitWidth(), "(" + string(dstTy->getIntegerBitWidth() > 64 ? "u128" : "u64") + ")" + sextExpr(sTy->getIntegerBitWidth(), s));
  case Instruction::PtrToInt: return maskExpr(dstTy->getIntegerBitWidth(), "(u64)(" + s + ")");
  case Instruction::IntToPtr: return "((" + cty(dstTy) + ")(u64)(" + s + "))";
  case Instruction::BitCast:
    if (sTy->isPointerTy() && dstTy->isPointerTy()) {
      string m;
      if (ptrCastAsMember(src, dstTy, m)) return m;
      return "((" + cty(dstTy) + ")(" + s + "))";
    }
    if (sTy->isIntegerTy(32) && dstTy->isFloatTy()) return "vp_bits2f(" + s + ")";
    if (sTy->isIntegerTy(64) && dstTy->isDoubleTy()) return "vp_bits2d(" + s + ")";
    if (sTy->isFloatTy() && dstTy->isIntegerTy(32)) return "vp_f2bits(" + s + ")";
    if (sTy->isDoubleTy() && dstTy->isIntegerTy(64)) return "vp_d2bits(" + s + ")";
    if (sTy == dstTy) return s;
    die("unsupported bitcast " + tstr(sTy) + " -> " + tstr(dstTy));
  case Instruction::FPExt: case Instruction::FPTrunc: return "((" + cty(dstTy) + ")(" + s + "))";
  case Instruction::SIToFP: return "((" + cty(dstTy) + ")" + sextExpr(sTy->getIntegerBitWidth(), s) + ")";
  case Instruction::UIToFP: return "((" + cty(dstTy) + ")(" + s + "))";
  // out-of-range conversion = poison: value 0 (advisory VP_CHK("float-to-int-range") is emitted by the caller)
  case Instruction::FPToSI: { unsigned w = dstTy->getIntegerBitWidth(); string lim = "0x1p" + std::to_string(w > 64 ? 63 : w - 1);
    return "(((" + s + ") >= -" + lim + " && (" + s + ") < " + lim + ") ? " + maskExpr(w, "(u64)(i64)(" + s + ")") + " : (" + ity(w) + ")0)"; }
  case Instruction::FPToUI: { unsigned w = dstTy->getIntegerBitWidth(); string lim = "0x1p" + std::to_string(w > 64 ? 64 : w);
    return "(((" + s + ") > -1.0 && (" + s + ") < " + lim + ") ? " + maskExpr(w, "(u64)(" + s + ")") + " : (" + ity(w) + ")0)"; }
  default: die("unsupported cast opcode"); return "";
  }
}

static string icmpExpr(unsigned pred, const Value* a, const Value* b) {
  Type* t = a->getType();
  string x = val(a), y = val(b);
  if (t->isPointerTy()) {
    switch (pred) {
    case CmpInst::ICMP_EQ: return "((u8)((void*)(" + x + ") == (void*)(" + y + ")))";
    case CmpInst::ICMP_NE: return "((u8)((void*)(" + x + ") != (void*)(" + y + ")))";
    default: x = "(u64)(" + x + ")"; y = "(u64)(" + y + ")"; t = nullptr;
    }
  }
  unsigned w = t ? t->getIntegerBitWidth() : 64;
  const char* op = nullptr; bool sg = false;
  switch (pred) {
  case CmpInst::ICMP_EQ: op = "=="; break; case CmpInst::ICMP_NE: op = "!="; break;
  case CmpInst::ICMP_UGT: op = ">"; break; case CmpInst::ICMP_UGE: op = ">="; break;
  case CmpInst::ICMP_ULT: op = "<"; break; case CmpInst::ICMP_ULE: op = "<="; break;
  case CmpInst::ICMP_SGT: op = ">"; sg = true; break; case CmpInst::ICMP_SGE: op = ">="; sg = true; break;
  case CmpInst::ICMP_SLT: op = "<"; sg = true; break; case CmpInst::ICMP_SLE: op = "<="; sg = true; break;
  default: die("bad icmp predicate");
  }
  if (sg) { x = sextExpr(w, x); y = sextExpr(w, y); }
  else { x = "(" + wideTy(w) + ")(" + x + ")"; y = "(" + wideTy(w) + ")(" + y + ")"; }
  return "((u8)(" + x + " " + op + " " + y + "))";
}

static string fcmpExpr(unsigned pred, const string& a, const string& b) {
  switch (pred) {
  case CmpInst::FCMP_FALSE: return "((u8)0)";
  case CmpInst::FCMP_TRUE: return "((u8)1)";
  case CmpInst::FCMP_OEQ: return "((u8)(" + a + " == " + b + "))";
  case CmpInst::FCMP_OGT: return "((u8)(" + a + " > " + b + "))";
  case CmpInst::FCMP_OGE: return "((u8)(" + a + " >= " + b + "))";
  case CmpInst::FCMP_OLT: return "((u8)(" + a + " < " + b + "))";
  case CmpInst::FCMP_OLE: return "((u8)(" + a + " <= " + b + "))";
  case CmpInst::FCMP_ONE: return "((u8)(" + a + " < " + b + " || " + a + " > " + b + "))";
  case CmpInst::FCMP_ORD: return "((u8)(" + a + " == " + a + " && " + b + " == " + b + "))";
  case CmpInst::FCMP_UNO: return "((u8)(" + a + " != " + a + " || " + b + " != " + b + "))";
  case CmpInst::FCMP_UEQ: return "((u8)!(" + a + " < " + b + " || " + a + " > " + b + "))";
  case CmpInst::FCMP_UGT: return "((u8)!(" + a + " <= " + b + "))";
  case CmpInst::FCMP_UGE: return "((u8)!(" + a + " < " + b + "))";
  case CmpInst::FCMP_ULT: return "((u8)!(" + a + " >= " + b + "))";
  case CmpInst::FCMP_ULE: return "((u8)!(" + a + " > " + b + "))";
  case CmpInst::FCMP_UNE: return "((u8)(" + a + " != " + b + "))";
  default: die("bad fcmp"); return "";
  }
}

// integer binary op expression (no checks); checks are emitted by the instruction translator
static string binExpr(unsigned opc, Type* t, const string& a, const string& b) {
  if (t->isFloatingPointTy()) {
    const char* op = nullptr;
    switch (opc) {
    case Instruction::FAdd: op = "+"; break; case Instruction::FSub: op = "-"; break;
    case Instruction::FMul: op = "*"; break; case Instruction::FDiv: op = "/"; break;
    case Instruction::FRem: return string(t->isFloatTy() ? "fmodf" : "fmod") + "(" + a + ", " + b + ")";
    default: die("bad fp binop");
    }
    return "((" + cty(t) + ")(" + a + " " + op + " " + b + "))";
  }
  unsigned w = t->getIntegerBitWidth();
  string W = wideTy(w);
  string x = "(" + W + ")(" + a + ")", y = "(" + W + ")(" + b + ")";
  switch (opc) {
  case Instruction::Add: return maskExpr(w, x + " + " + y);
  case Instruction::Sub: return maskExpr(w, x + " - " + y);
  case Instruction::Mul: return maskExpr(w, x + " * " + y);
  case Instruction::UDiv: return maskExpr(w, x + " / " + y);
  case Instruction::URem: return maskExpr(w, x + " % " + y);
  case Instruction::SDiv: return maskExpr(w, "(" + W + ")(" + sextExpr(w, a) + " / " + sextExpr(w, b) + ")");
  case Instruction::SRem: return maskExpr(w, "(" + W + ")(" + sextExpr(w, a) + " % " + sextExpr(w, b) + ")");
  case Instruction::And: return maskExpr(w, x + " & " + y);
  case Instruction::Or: return maskExpr(w, x + " | " + y);
  case Instruction::Xor: return maskExpr(w, x + " ^ " + y);
  // an over-wide shift count yields poison in LLVM (not immediate UB; the optimizer speculates such shifts): value 0 here,
  // the separate VP_CHK("shift-count") is advisory and only counts when the native UBSan run confirms it
  case Instruction::Shl: return "((u64)(" + b + ") < " + std::to_string(w) + " ? " + maskExpr(w, x + " << " + y) + " : (" + ity(w) + ")0)";
  case Instruction::LShr: return "((u64)(" + b + ") < " + std::to_string(w) + " ? " + maskExpr(w, x + " >> " + y) + " : (" + ity(w) + ")0)";
  case Instruction::AShr: return "((u64)(" + b + ") < " + std::to_string(w) + " ? " + maskExpr(w, "(" + W + ")(" + sextExpr(w, a) + " >> " + y + ")") + " : (" + ity(w) + ")0)";
  default: die("bad int binop"); return "";
  }
}

static string zeroInit(Type* t, bool initMode) {
  if (t->isStructTy() || t->isArrayTy()) {
    defineAggregate(t);
    return initMode ? "{0}" : "((" + cty(t) + "){0})";
  }
  if (t->isPointerTy()) return "((" + cty(t) + ")0)";
  if (t->isFloatingPointTy()) return "0.0";
  return "((" + cty(t) + ")0)";
}

static string constExpr(const Constant* c, bool initMode) {
  Type* t = c->getType();
  if (auto* ci = dyn_cast<ConstantInt>(c)) {
    unsigned w = t->getIntegerBitWidth();
    if (w > 64) {
      APInt v = ci->getValue();
      uint64_t lo = v.trunc(64).getZExtValue(), hi = v.lshr(64).trunc(64).getZExtValue();
      return "((((u128)" + std::to_string(hi) + "ULL) << 64) | (u128)" + std::to_string(lo) + "ULL)";
    }
    return "((" + ity(w) + ")" + std::to_string(ci->getZExtValue()) + "ULL)";
  }
  if (auto* cf = dyn_cast<ConstantFP>(c)) return fpLiteral(cf->getValueAPF(), t);
  if (isa<ConstantPointerNull>(c)) return "((" + cty(t) + ")0)";
  if (isa<UndefValue>(c)) return zeroInit(t, initMode);
  if (isa<ConstantAggregateZero>(c)) return zeroInit(t, initMode);
  if (auto* gv = dyn_cast<GlobalVariable>(c)) {
    C.reachG.count(gv) || (die("global not collected: " + gv->getName().str()), 0);
    return "(&" + gname(gv) + ")";
  }
  if (auto* f = dyn_cast<Function>(c)) {
    if (f->isDeclaration()) return "((" + cty(t) + ")" + gname(f) + ")";
    return "(" + gname(f) + ")";
  }
  if (auto* ga = dyn_cast<GlobalAlias>(c)) return constExpr(ga->getAliasee(), initMode);
  if (auto* ca = dyn_cast<ConstantDataSequential>(c)) {
    if (!t->isArrayTy()) die("vector constant");
    defineAggregate(t);
    string s = initMode ? "{{" : "((" + cty(t) + "){{";
    for (unsigned i = 0; i < ca->getNumElements(); i++) {
      if (i) s += ",";
      s += constExpr(ca->getElementAsConstant(i), initMode);
    }
    return s + (initMode ? "}}" : "}})");
  }
  if (isa<ConstantArray>(c) || isa<ConstantStruct>(c)) {
    defineAggregate(t);
    bool arr = t->isArrayTy();
    string s = initMode ? "{" : "((" + cty(t) + "){";
    if (arr) s += "{";
    unsigned n = c->getNumOperands();
    for (unsigned i = 0; i < n; i++) {
      if (i) s += ", ";
      s += constExpr(cast<Constant>(c->getOperand(i)), true);
    }
    if (n == 0) s += "0";
    if (arr) s += "}";
    return s + (initMode ? "}" : "})");
  }
  if (auto* ce = dyn_cast<ConstantExpr>(c)) {
    unsigned opc = ce->getOpcode();
    if (opc == Instruction::GetElementPtr) {
      auto* g = cast<GEPOperator>(ce);
      std::vector<const Value*> idx;
      for (auto it = g->idx_begin(); it != g->idx_end(); ++it) idx.push_back(it->get());
      return gepExpr(g->getSourceElementType(), g->getPointerOperand(), idx, t);
    }
    if (Instruction::isCast(opc)) return castExpr(opc, ce->getOperand(0), t);
    if (Instruction::isBinaryOp(opc)) return binExpr(opc, t, val(ce->getOperand(0)), val(ce->getOperand(1)));
    if (opc == Instruction::ICmp) return icmpExpr(ce->getPredicate(), ce->getOperand(0), ce->getOperand(1));
    if (opc == Instruction::Select)
      return "(" + val(ce->getOperand(0)) + " ? " + val(ce->getOperand(1)) + " : " + val(ce->getOperand(2)) + ")";
    die("unsupported constant expression: " + str(c));
  }
  if (isa<BlockAddress>(c)) die("blockaddress");
  die("unsupported constant: " + str(c));
  return "";
}

static string val(const Value* v) {
  if (auto* c = dyn_cast<Constant>(v)) return constExpr(c, false);
  if (!FC) die("local value outside function");
  auto it = FC->names.find(v);
  if (it == FC->names.end()) die("unnamed value " + str(v));
  return it->second;
}

// ---- decomposition of constant-size mem intrinsics into typed leaf-field operations -------------------------------
// CBMC's built-in memcpy/memset on a *part of a struct* turns the whole object into a byte_update expression and symex
// loses the constant values of unrelated fields (vptrs, member pointers) -- virtual calls then fan out over every
// candidate. LLVM merges adjacent member initialisations/copies into such intrinsics all the time, so ll2c undoes it.
struct Leaf { string expr; uint64_t off; uint64_t size; Type* ty; };
static bool collectLeaves(Type* t, const string& expr, uint64_t off, std::vector<Leaf>& out, unsigned& budget) {
  if (budget == 0) return false;
  if (auto* st = dyn_cast<StructType>(t)) {
    if (st->isOpaque()) return false;
    const StructLayout* SL = C.DL->getStructLayout(st);
    for (unsigned i = 0; i < st->getNumElements(); i++)
      if (!collectLeaves(st->getElementType(i), expr + ".f" + std::to_string(i), off + SL->getElementOffset(i), out, budget)) return false;
    return true;
  }
  if (auto* at = dyn_cast<ArrayType>(t)) {
    uint64_t es = C.DL->getTypeAllocSize(at->getElementType());
    for (uint64_t i = 0; i < at->getNumElements(); i++)
      if (!collectLeaves(at->getElementType(), expr + ".a[" + std::to_string(i) + "]", off + i * es, out, budget)) return false;
    return true;
  }
  if (t->isIntegerTy() || t->isPointerTy() || t->isFloatTy() || t->isDoubleTy()) {
    budget--;
    out.push_back({expr, off, C.DL->getTypeStoreSize(t), t});
    return true;
  }
  return false;
}
// resolves a pointer operand to (typed base pointer value, constant byte offset)
static bool resolveBase(const Value* p, const Value*& base, uint64_t& off) {
  off = 0;
  for (int guard = 0; guard < 16; guard++) {
    if (auto* bc = dyn_cast<BitCastOperator>(p)) { p = bc->getOperand(0); continue; }
    if (auto* g = dyn_cast<GEPOperator>(p)) {
      APInt o(64, 0);
      if (!g->accumulateConstantOffset(*C.DL, o)) return false;
      if (o.isNegative()) return false;
      off += o.getZExtValue();
      p = g->getPointerOperand();
      continue;
    }
    break;
  }
  if (!p->getType()->isPointerTy()) return false;
  base = p;
  return true;
}
static bool leavesInRange(const Value* ptr, uint64_t n, std::vector<Leaf>& out) {
  const Value* base; uint64_t off;
  if (!resolveBase(ptr, base, off)) return false;
  Type* pt = base->getType()->getPointerElementType();
  if (!(pt->isStructTy() || pt->isArrayTy())) return false;
  if (auto* st = dyn_cast<StructType>(pt)) if (st->isOpaque()) return false;
  if (off + n > C.DL->getTypeAllocSize(pt)) return false;
  defineAggregate(pt);
  std::vector<Leaf> all; unsigned budget = 4096;
  if (!collectLeaves(pt, "(*(" + val(base) + "))", 0, all, budget)) return false;
  uint64_t covered = 0;
  for (auto& l : all) {
    if (l.off + l.size <= off || l.off >= off + n) continue;
    if (l.off < off || l.off + l.size > off + n) return false;  // partial leaf
    out.push_back({l.expr, l.off - off, l.size, l.ty});
    covered += l.size;
  }
  (void)covered;  // padding bytes inside the range carry no value
  return !out.empty() && out.size() <= 300;
}
static bool emitMemDecomposed(const CallInst* ci, Intrinsic::ID id, std::ostream& body) {
  auto* len = dyn_cast<ConstantInt>(ci->getArgOperand(2));
  if (!len) return false;
  uint64_t n = len->getZExtValue();
  if (n == 0) { return true; }
  if (n > 4096) return false;
  std::vector<Leaf> d;
  if (!leavesInRange(ci->getArgOperand(0), n, d)) return false;
  if (id == Intrinsic::memset) {
    auto* cv = dyn_cast<ConstantInt>(ci->getArgOperand(1));
    if (!cv) return false;
    uint64_t b = cv->getZExtValue() & 0xff;
    std::ostringstream o;
    for (auto& l : d) {
      if (l.ty->isIntegerTy()) {
        uint64_t v = 0; for (uint64_t i = 0; i < l.size && i < 8; i++) v |= b << (8 * i);
        if (l.size > 8 && b != 0) return false;
        o << "  " << l.expr << " = " << maskExpr(l.ty->getIntegerBitWidth(), std::to_string(v) + "ULL") << ";\n";
      } else if (b == 0) o << "  " << l.expr << " = " << zeroInit(l.ty, false) << ";\n";
      else return false;
    }
    body << o.str();
    return true;
  }
  std::vector<Leaf> s;
  if (!leavesInRange(ci->getArgOperand(1), n, s)) {
    // source is raw memory: copy leaf by leaf (each builtin copy then touches one scalar field only)
    const Value* sv = ci->getArgOperand(1);
    if (d.size() > 64) return false;
    std::ostringstream o;
    for (auto& l : d)
      o << "  vp_memcpy((void*)&" << l.expr << ", (const void*)((u8*)(" << val(sv) << ") + " << l.off << "), " << l.size << ");\n";
    body << o.str();
    return true;
  }
  if (s.size() != d.size()) return false;
  for (size_t i = 0; i < d.size(); i++) if (s[i].off != d[i].off || s[i].size != d[i].size) return false;
  std::ostringstream o;
  // memmove semantics: read everything first when the regions may overlap (same base object) -- use temporaries
  bool viaTmp = id == Intrinsic::memmove;
  if (viaTmp && d.size() > 64) return false;
  if (viaTmp) {
    o << "  {\n";
    for (size_t i = 0; i < d.size(); i++) o << "    " << cty(s[i].ty) << " t" << i << "__ = " << s[i].expr << ";\n";
  }
  for (size_t i = 0; i < d.size(); i++) {
    string src = viaTmp ? "t" + std::to_string(i) + "__" : s[i].expr;
    Type* a = d[i].ty; Type* b = s[i].ty;
    if (a == b) o << "  " << d[i].expr << " = " << src << ";\n";
    else if (a->isPointerTy() && b->isPointerTy()) o << "  " << d[i].expr << " = (" << cty(a) << ")" << src << ";\n";
    else if (a->isIntegerTy() && b->isIntegerTy()) o << "  " << d[i].expr << " = (" << cty(a) << ")" << src << ";\n";
    else if (a->isPointerTy() && b->isIntegerTy(64)) o << "  " << d[i].expr << " = (" << cty(a) << ")(u64)" << src << ";\n";
    else if (a->isIntegerTy(64) && b->isPointerTy()) o << "  " << d[i].expr << " = (u64)" << src << ";\n";
    else if (viaTmp) o << "  vp_memcpy((void*)&" << d[i].expr << ", (const void*)&" << src << ", " << d[i].size << ");\n";
    else o << "  vp_memcpy((void*)&" << d[i].expr << ", (const void*)&" << s[i].expr << ", " << d[i].size << ");\n";
  }
  if (viaTmp) o << "  }\n";
  body << o.str();
  return true;
}

// ---- vtable-slot based devirtualisation -----------------------------------------------------------------------------
// an indirect call "load (gep (load vptr), k)" can only reach functions stored at slot k (relative to an address point)
// of some emitted vtable; ll2c emits that dispatch itself instead of leaving CBMC to try every address-taken function of
// similar shape (which explodes as soon as a vptr is not a syntactic constant after a state merge)
static bool sameShape(FunctionType* a, FunctionType* b) {
  if (a->getNumParams() != b->getNumParams() || a->isVarArg() != b->isVarArg()) return false;
  auto cls = [](Type* t) -> int { return t->isPointerTy() ? 1000 : t->isIntegerTy() ? (int)t->getIntegerBitWidth() : t->isVoidTy() ? 2000 : t->isFloatTy() ? 3000 : t->isDoubleTy() ? 3001 : 4000 + (int)t->getTypeID(); };
  if (cls(a->getReturnType()) != cls(b->getReturnType())) return false;
  for (unsigned i = 0; i < a->getNumParams(); i++) if (cls(a->getParamType(i)) != cls(b->getParamType(i))) return false;
  return true;
}
static string normName(StructType* st) {
  if (!st->hasName()) return "";
  string n = st->getName().str();
  for (;;) {
    size_t d = n.rfind('.');
    if (d == string::npos) break;
    string suf = n.substr(d + 1);
    bool num = !suf.empty() && std::all_of(suf.begin(), suf.end(), [](char c) { return isdigit((unsigned char)c); });
    if (num || suf == "base") n = n.substr(0, d); else break;
  }
  return n;
}
// a load/store through a GEP with a variable index is emitted as the lvalue base[0].field.a[i] rather than through
// the pointer temporary: CBMC then updates the one array member instead of byte-updating the whole enclosing object at an
// unknown offset (which destroys constant propagation of every other member, vptrs included). Sound by SSA dominance: the
// GEP's operands have the same values at the dominated use.
static string ptrAccess(const Value* p) {
  if (auto* g = dyn_cast<GetElementPtrInst>(p)) {
    bool var = false;
    for (auto it = g->idx_begin(); it != g->idx_end(); ++it) if (!isa<Constant>(it->get())) var = true;
    if (var && !g->getType()->isVectorTy()) {
      std::vector<const Value*> idx;
      for (auto it = g->idx_begin(); it != g->idx_end(); ++it) idx.push_back(it->get());
      bool lv = false;
      string e = gepExpr(g->getSourceElementType(), g->getPointerOperand(), idx, g->getType(), &lv);
      return lv ? e : "*(" + e + ")";
    }
  }
  return "*(" + val(p) + ")";
}
// class-hierarchy filter: the candidate's 'this' class must be the static class or contain it as a (nested) base subobject
static bool derivesFrom(Type* cand, const string& base, int depth) {
  auto* st = dyn_cast<StructType>(cand);
  if (!st || depth > 8) return false;
  if (normName(st) == base) return true;
  if (st->isOpaque()) return false;
  for (Type* e : st->elements()) if (e->isStructTy() && derivesFrom(e, base, depth + 1)) return true;
  return false;
}
static bool thisCompatible(FunctionType* callTy, const Function* cand) {
  if (callTy->getNumParams() == 0 || cand->arg_size() == 0) return true;
  Type* a = callTy->getParamType(0); Type* b = cand->getFunctionType()->getParamType(0);
  if (!a->isPointerTy() || !b->isPointerTy()) return true;
  auto* sa = dyn_cast<StructType>(a->getPointerElementType());
  auto* sb = dyn_cast<StructType>(b->getPointerElementType());
  if (!sa || !sb) return true;
  string base = normName(sa);
  if (base.empty()) return true;
  return derivesFrom(sb, base, 0);
}
static bool vtableSlot(const Value* callee, int64_t& slot) {
  auto* l1 = dyn_cast<LoadInst>(callee);
  if (!l1) return false;
  const Value* p = l1->getPointerOperand();
  slot = 0;
  if (auto* g = dyn_cast<GetElementPtrInst>(p)) {
    if (g->getNumIndices() != 1) return false;
    auto* ci = dyn_cast<ConstantInt>(g->getOperand(1));
    if (!ci) return false;
    slot = ci->getSExtValue();
    p = g->getPointerOperand();
  }
  auto* l2 = dyn_cast<LoadInst>(p);
  if (!l2) return false;
  // the inner load reads a vptr: pointer to pointer to function
  Type* t = l2->getType();
  if (!t->isPointerTy() || !t->getPointerElementType()->isPointerTy() || !t->getPointerElementType()->getPointerElementType()->isFunctionTy()) return false;
  return true;
}
// candidates excluded by name (--devirt-exclude): stays sound because a call whose target is not among the emitted
// candidates fails the "virtual-call-target-not-in-any-vtable-slot" check instead of being ignored
static std::vector<string> g_devirtExclude;
static std::vector<const Function*> slotCandidates(int64_t slot, FunctionType* ft) {
  std::vector<const Function*> out; std::set<const Function*> seen;
  for (const GlobalVariable* G : C.gOrder) {
    if (!G->getName().startswith("_ZTV") || !G->hasInitializer()) continue;
    auto* cs = dyn_cast<ConstantStruct>(G->getInitializer());
    if (!cs) continue;
    for (unsigned j = 0; j < cs->getNumOperands(); j++) {
      auto* arr = dyn_cast<ConstantArray>(cs->getOperand(j));
      if (!arr) continue;
      // address points: any position whose two preceding entries are non-functions (offset-to-top, RTTI) is conservative;
      // we simply try every position p and take entry p+slot when entry p-1 is not a function (RTTI slot)
      for (unsigned p0 = 1; p0 < arr->getNumOperands(); p0++) {
        const Value* prev = arr->getOperand(p0 - 1)->stripPointerCasts();
        if (isa<Function>(prev)) continue;
        int64_t idx = (int64_t)p0 + slot;
        if (idx < 0 || idx >= (int64_t)arr->getNumOperands()) continue;
        if (auto* f = dyn_cast<Function>(arr->getOperand(idx)->stripPointerCasts()))
          if (sameShape(f->getFunctionType(), ft) && thisCompatible(ft, f) && seen.insert(f).second) {
            bool ex = false;
            for (auto& e : g_devirtExclude) if (f->getName().contains(e)) ex = true;
            if (!ex) out.push_back(f);
          }
      }
    }
  }
  return out;
}

// ---------------------------------------------------------------- reachability
static void collectConst(const Constant* c, std::vector<const GlobalValue*>& work, std::set<const Constant*>& seen) {
  if (!seen.insert(c).second) return;
  if (auto* gv = dyn_cast<GlobalValue>(c)) { work.push_back(gv); return; }
  for (const Use& u : c->operands())
    if (auto* oc = dyn_cast<Constant>(u.get())) collectConst(oc, work, seen);
}

static void computeReachable(const std::vector<const Function*>& roots) {
  std::vector<const GlobalValue*> work(roots.begin(), roots.end());
  std::set<const Constant*> seen;
  while (!work.empty()) {
    const GlobalValue* g = work.back(); work.pop_back();
    if (auto* ga = dyn_cast<GlobalAlias>(g)) { collectConst(ga->getAliasee(), work, seen); continue; }
    if (auto* F = dyn_cast<Function>(g)) {
      if (!C.reachF.insert(F).second) continue;
      C.fOrder.push_back(F);
      for (const BasicBlock& B : *F)
        for (const Instruction& I : B) {
          if (isa<DbgInfoIntrinsic>(I)) continue;
          for (const Use& u : I.operands())
            if (auto* oc = dyn_cast<Constant>(u.get())) collectConst(oc, work, seen);
        }
    } else if (auto* V = dyn_cast<GlobalVariable>(g)) {
      if (!C.reachG.insert(V).second) continue;
      C.gOrder.push_back(V);
      if (V->hasInitializer()) collectConst(V->getInitializer(), work, seen);
    }
  }
}

// ---------------------------------------------------------------- function bodies
static string cstring(const Value* v) {  // constant C string behind a pointer value, or ""
  v = v->stripPointerCasts();
  if (auto* ce = dyn_cast<ConstantExpr>(v))
    if (ce->getOpcode() == Instruction::GetElementPtr) v = ce->getOperand(0);
  if (auto* gv = dyn_cast<GlobalVariable>(v))
    if (gv->hasInitializer())
      if (auto* cd = dyn_cast<ConstantDataArray>(gv->getInitializer()))
        if (cd->isCString()) return cd->getAsCString().str();
  return "";
}

// possible constant C strings behind an id operand (the optimizer may merge call sites into phi/select)
static void idCandidates(const Value* v, std::vector<std::pair<const Value*, string>>& out, std::set<const Value*>& seen) {
  if (!seen.insert(v).second) return;
  string s = cstring(v);
  if (!s.empty()) { out.push_back({v, s}); return; }
  if (auto* p = dyn_cast<PHINode>(v)) { for (const Use& u : p->incoming_values()) idCandidates(u.get(), out, seen); return; }
  if (auto* sl = dyn_cast<SelectInst>(v)) { idCandidates(sl->getTrueValue(), out, seen); idCandidates(sl->getFalseValue(), out, seen); return; }
  die("harness id argument is not a (merge of) string literal(s): " + str(v));
}
static string idDispatch(const Value* idv, std::function<string(const string&)> stmt) {
  std::vector<std::pair<const Value*, string>> c; std::set<const Value*> seen;
  idCandidates(idv, c, seen);
  if (c.size() == 1 && isa<Constant>(idv)) return "  " + stmt(c[0].second) + "\n";
  string r = "  ";
  for (auto& pr : c) r += "if ((void*)(" + val(idv) + ") == (void*)(" + val(pr.first) + ")) { " + stmt(pr.second) + " } else ";
  r += "{ VP_CHK(\"harness-id-dispatch\", 0); }\n";
  return r;
}

static string externProto(const Function* F) {
  FunctionType* ft = F->getFunctionType();
  Type* rt = ft->getReturnType();
  bool aggRet = rt->isStructTy() || rt->isArrayTy();   // models write aggregate results through a leading out-pointer
  string s = (aggRet ? string("void") : rt->isPointerTy() ? string("void*") : cty(rt)) + " " + gname(F) + "(";
  bool first = true;
  if (aggRet) { s += "void*"; first = false; }
  for (Type* p : ft->params()) {
    if (!first) s += ", ";
    s += p->isPointerTy() ? string("void*") : cty(p);
    first = false;
  }
  if (ft->isVarArg()) s += first ? "" : ", ...";
  else if (first) s += "void";
  return s + ")";
}

static string defProto(const Function* F, FnCtx* fc) {
  FunctionType* ft = F->getFunctionType();
  string s = cty(ft->getReturnType()) + " " + gname(F) + "(";
  bool first = true;
  unsigned i = 0;
  for (const Argument& A : F->args()) {
    if (!first) s += ", ";
    s += cty(A.getType()) + " " + (fc ? fc->names[&A] : "a" + std::to_string(i));
    first = false; i++;
  }
  if (ft->isVarArg()) die("variadic function definition: " + F->getName().str());
  if (first) s += "void";
  return s + ")";
}

static void emitFunction(const Function* F, std::ostream& out, bool lineInfo) {
  FnCtx fc; fc.F = F; FC = &fc;
  std::ostringstream decls, body;
  unsigned ai = 0;
  for (const Argument& A : F->args()) fc.names[&A] = "a" + std::to_string(ai++);
  std::map<const BasicBlock*, string> bbName;
  int bi = 0;
  for (const BasicBlock& B : *F) bbName[&B] = "bb" + std::to_string(bi++);
  for (const BasicBlock& B : *F)
    for (const Instruction& I : B) {
      if (I.getType()->isVoidTy()) continue;
      string n = "v" + std::to_string(fc.counter++);
      fc.names[&I] = n;
      Type* t = I.getType();
      if (t->isStructTy() || t->isArrayTy()) defineAggregate(t);
      decls << "  " << cty(t) << " " << n << ";\n";
      if (isa<PHINode>(I)) decls << "  " << cty(t) << " " << n << "__in;\n";
    }
  // byval params: copy
  for (const Argument& A : F->args())
    if (A.hasByValAttr()) {
      Type* et = A.getParamByValType();
      if (et->isStructTy() || et->isArrayTy()) defineAggregate(et);
      string n = fc.names[&A];
      decls << "  " << cty(et) << " " << n << "__bv = *" << n << ";\n";
      body << "  " << n << " = &" << n << "__bv;\n";
    }
  auto edge = [&](const BasicBlock* from, const BasicBlock* to) {
    string s;
    for (const PHINode& P : to->phis()) {
      const Value* in = P.getIncomingValueForBlock(from);
      s += fc.names[&P] + "__in = " + val(in) + "; ";
    }
    s += "goto " + bbName[to] + ";";
    return s;
  };
  string lastLine;
  for (const BasicBlock& B : *F) {
    body << bbName[&B] << ": ;\n";
    for (const PHINode& P : B.phis()) body << "  " << fc.names[&P] << " = " << fc.names[&P] << "__in;\n";
    for (const Instruction& I : B) {
      if (isa<PHINode>(I)) continue;
      if (isa<DbgInfoIntrinsic>(I)) continue;
      if (lineInfo) {
        if (const DebugLoc& dl = I.getDebugLoc()) {
          if (dl.getLine() > 0) {
            auto* sc = cast<DIScope>(dl.getScope());
            string fn = sc->getFilename().str();
            if (!sc->getDirectory().empty() && !fn.empty() && fn[0] != '/') fn = sc->getDirectory().str() + "/" + fn;
            string ln = "#line " + std::to_string(dl.getLine()) + " \"" + fn + "\"\n";
            if (ln != lastLine) { body << ln; lastLine = ln; }
          }
        }
      }
      string lhs = I.getType()->isVoidTy() ? "" : fc.names[&I] + " = ";
      Type* t = I.getType();
      unsigned opc = I.getOpcode();
      if (auto* ai2 = dyn_cast<AllocaInst>(&I)) {
        Type* et = ai2->getAllocatedType();
        if (et->isStructTy() || et->isArrayTy()) defineAggregate(et);
        auto* n = dyn_cast<ConstantInt>(ai2->getArraySize());
        if (!n) die("dynamic alloca in " + F->getName().str());
        string mem = fc.names[&I] + "__m";
        if (n->getZExtValue() == 1) {
          decls << "  " << cty(et) << " " << mem << ";\n";
          body << "  " << lhs << "&" << mem << ";\n";
        } else {
          decls << "  " << cty(et) << " " << mem << "[" << n->getZExtValue() << "];\n";
          body << "  " << lhs << "&" << mem << "[0];\n";
        }
      } else if (auto* li = dyn_cast<LoadInst>(&I)) {
        body << "  " << lhs << ptrAccess(li->getPointerOperand()) << ";\n";
      } else if (auto* si = dyn_cast<StoreInst>(&I)) {
        body << "  " << ptrAccess(si->getPointerOperand()) << " = " << val(si->getValueOperand()) << ";\n";
      } else if (auto* g = dyn_cast<GetElementPtrInst>(&I)) {
        std::vector<const Value*> idx;
        for (auto it = g->idx_begin(); it != g->idx_end(); ++it) idx.push_back(it->get());
        if (t->isVectorTy()) die("vector GEP");
        body << "  " << lhs << gepExpr(g->getSourceElementType(), g->getPointerOperand(), idx, t) << ";\n";
      } else if (I.isCast()) {
        if (opc == Instruction::FPToSI || opc == Instruction::FPToUI) {
          // out-of-range conversion is UB in C++ / poison in LLVM
          unsigned w = t->getIntegerBitWidth();
          string s = val(I.getOperand(0));
          string lo, hi;
          if (opc == Instruction::FPToSI) { lo = "-0x1p" + std::to_string(w - 1); hi = "0x1p" + std::to_string(w - 1); }
          else { lo = "-1.0"; hi = "0x1p" + std::to_string(w); }
          body << "  VP_CHK(\"float-to-int-range\", (" << s << ") " << (opc == Instruction::FPToSI ? ">=" : ">") << " " << lo
               << " && (" << s << ") < " << hi << ");\n";
        }
        body << "  " << lhs << castExpr(opc, I.getOperand(0), t) << ";\n";
      } else if (auto* ic = dyn_cast<ICmpInst>(&I)) {
        if (ic->getOperand(0)->getType()->isVectorTy()) die("vector icmp");
        body << "  " << lhs << icmpExpr(ic->getPredicate(), ic->getOperand(0), ic->getOperand(1)) << ";\n";
      } else if (auto* fcm = dyn_cast<FCmpInst>(&I)) {
        body << "  " << lhs << fcmpExpr(fcm->getPredicate(), val(fcm->getOperand(0)), val(fcm->getOperand(1))) << ";\n";
      } else if (I.isBinaryOp()) {
        if (t->isVectorTy()) die("vector binop in " + F->getName().str());
        string a = val(I.getOperand(0)), b = val(I.getOperand(1));
        {
          // pointer difference: sub (ptrtoint p), (ptrtoint q)  ->  C pointer subtraction (CBMC: offsets within one
          // object instead of two symbolic integer addresses)
          auto* pa = dyn_cast<PtrToIntOperator>(I.getOperand(0));
          auto* pb = dyn_cast<PtrToIntOperator>(I.getOperand(1));
          if (opc == Instruction::Sub && pa && pb && t->isIntegerTy(64)) {
            string x = val(pa->getPointerOperand()), y = val(pb->getPointerOperand());
            body << "  " << lhs << "(((void*)(" << x << ") == (void*)(" << y << ")) ? (u64)0 : (u64)((u8*)(" << x << ") - (u8*)(" << y << ")));\n";
            continue;
          }
        }
        if (t->isIntegerTy()) {
          unsigned w = t->getIntegerBitWidth();
          if (opc == Instruction::Shl || opc == Instruction::LShr || opc == Instruction::AShr)
            body << "  VP_CHK(\"shift-count\", (u64)(" << b << ") < " << w << ");\n";
          if (auto* obo = dyn_cast<OverflowingBinaryOperator>(&I)) {
            if (obo->hasNoSignedWrap() && w <= 64) {
              const char* k = opc == Instruction::Add ? "plus" : opc == Instruction::Sub ? "minus" : opc == Instruction::Mul ? "mult" : nullptr;
              if (k) {
                string S = sty(w);
                if (containerBits(w) == w)
                  body << "  VP_CHK_OVF(\"signed-overflow\", " << k << ", (" << S << ")(" << a << "), (" << S << ")(" << b << "));\n";
              }
            }
          }
          if (opc == Instruction::SDiv || opc == Instruction::SRem) {
            body << "  VP_CHK(\"division-by-zero\", (" << b << ") != 0);\n";
            if (w == 32 || w == 64)
              body << "  VP_CHK(\"signed-overflow\", !((" << sextExpr(w, a) << ") == " << (w == 32 ? "(-2147483647-1)" : "(-9223372036854775807LL-1)") << " && (" << sextExpr(w, b) << ") == -1));\n";
          }
          if (opc == Instruction::UDiv || opc == Instruction::URem)
            body << "  VP_CHK(\"division-by-zero\", (" << b << ") != 0);\n";
        }
        body << "  " << lhs << binExpr(opc, t, a, b) << ";\n";
      } else if (opc == Instruction::FNeg) {
        body << "  " << lhs << "(-(" << val(I.getOperand(0)) << "));\n";
      } else if (auto* sel = dyn_cast<SelectInst>(&I)) {
        if (sel->getCondition()->getType()->isVectorTy()) die("vector select");
        body << "  " << lhs << "(" << val(sel->getCondition()) << " ? " << val(sel->getTrueValue()) << " : " << val(sel->getFalseValue()) << ");\n";
      } else if (isa<FreezeInst>(I)) {
        body << "  " << lhs << val(I.getOperand(0)) << ";\n";
      } else if (auto* ev = dyn_cast<ExtractValueInst>(&I)) {
        string e = val(ev->getAggregateOperand());
        Type* cur = ev->getAggregateOperand()->getType();
        for (unsigned ix : ev->indices()) {
          if (auto* st = dyn_cast<StructType>(cur)) { e += ".f" + std::to_string(ix); cur = st->getElementType(ix); }
          else { e += ".a[" + std::to_string(ix) + "]"; cur = cast<ArrayType>(cur)->getElementType(); }
        }
        body << "  " << lhs << e << ";\n";
      } else if (auto* iv = dyn_cast<InsertValueInst>(&I)) {
        string n = fc.names[&I];
        if (!isa<UndefValue>(iv->getAggregateOperand()))
          body << "  " << n << " = " << val(iv->getAggregateOperand()) << ";\n";
        string e = n;
        Type* cur = t;
        for (unsigned ix : iv->indices()) {
          if (auto* st = dyn_cast<StructType>(cur)) { e += ".f" + std::to_string(ix); cur = st->getElementType(ix); }
          else { e += ".a[" + std::to_string(ix) + "]"; cur = cast<ArrayType>(cur)->getElementType(); }
        }
        body << "  " << e << " = " << val(iv->getInsertedValueOperand()) << ";\n";
      } else if (auto* ci = dyn_cast<CallInst>(&I)) {
        if (ci->isInlineAsm()) die("inline asm in " + F->getName().str());
        const Function* cf = ci->getCalledFunction();
        if (!cf) if (auto* cv = dyn_cast<Function>(ci->getCalledOperand()->stripPointerCasts())) {
          if (cv->getFunctionType() == ci->getFunctionType()) cf = cv;
        }
        auto arg = [&](unsigned i) { return val(ci->getArgOperand(i)); };
        if (cf && cf->isIntrinsic()) {
          Intrinsic::ID id = cf->getIntrinsicID();
          switch (id) {
          case Intrinsic::lifetime_start: case Intrinsic::lifetime_end: case Intrinsic::assume:
          case Intrinsic::experimental_noalias_scope_decl: case Intrinsic::stacksave: case Intrinsic::stackrestore:
          case Intrinsic::prefetch: case Intrinsic::donothing: case Intrinsic::invariant_start: case Intrinsic::invariant_end:
            if (!t->isVoidTy()) body << "  " << lhs << zeroInit(t, false) << ";\n";
            break;
          case Intrinsic::memcpy: case Intrinsic::memmove: case Intrinsic::memset: {
            if (emitMemDecomposed(ci, id, body)) break;
            const char* fn = id == Intrinsic::memcpy ? "vp_memcpy" : id == Intrinsic::memmove ? "vp_memmove" : "vp_memset";
            unsigned lw = ci->getArgOperand(2)->getType()->getIntegerBitWidth();
            (void)lw;
            if (id == Intrinsic::memset)
              body << "  " << fn << "((void*)" << arg(0) << ", (int)" << arg(1) << ", (u64)" << arg(2) << ");\n";
            else
              body << "  " << fn << "((void*)" << arg(0) << ", (const void*)" << arg(1) << ", (u64)" << arg(2) << ");\n";
            break;
          }
          case Intrinsic::trap: case Intrinsic::ubsantrap: case Intrinsic::debugtrap:
            body << "  VP_CHK(\"trap\", 0); __CPROVER_assume(0);\n"; break;
          case Intrinsic::expect: body << "  " << lhs << arg(0) << ";\n"; break;
          case Intrinsic::umax: body << "  " << lhs << "((" << arg(0) << ") > (" << arg(1) << ") ? (" << arg(0) << ") : (" << arg(1) << "));\n"; break;
          case Intrinsic::umin: body << "  " << lhs << "((" << arg(0) << ") < (" << arg(1) << ") ? (" << arg(0) << ") : (" << arg(1) << "));\n"; break;
          case Intrinsic::smax: case Intrinsic::smin: {
            unsigned w = t->getIntegerBitWidth();
            body << "  " << lhs << "(" << sextExpr(w, arg(0)) << (id == Intrinsic::smax ? " > " : " < ") << sextExpr(w, arg(1)) << " ? (" << arg(0) << ") : (" << arg(1) << "));\n";
            break;
          }
          case Intrinsic::abs: {
            unsigned w = t->getIntegerBitWidth();
            body << "  " << lhs << "(" << sextExpr(w, arg(0)) << " < 0 ? " << binExpr(Instruction::Sub, t, "0", arg(0)) << " : (" << arg(0) << "));\n";
            break;
          }
          case Intrinsic::usub_sat: body << "  " << lhs << "((" << arg(0) << ") > (" << arg(1) << ") ? " << binExpr(Instruction::Sub, t, arg(0), arg(1)) << " : (" << cty(t) << ")0);\n"; break;
          case Intrinsic::uadd_sat: {
            string sum = binExpr(Instruction::Add, t, arg(0), arg(1));
            body << "  " << lhs << "(" << sum << " < (" << arg(0) << ") ? " << maskExpr(t->getIntegerBitWidth(), "~(u64)0") << " : " << sum << ");\n"; break;
          }
          case Intrinsic::fabs: body << "  " << lhs << (t->isFloatTy() ? "fabsf(" : "fabs(") << arg(0) << ");\n"; break;
          case Intrinsic::round: body << "  " << lhs << (t->isFloatTy() ? "roundf(" : "round(") << arg(0) << ");\n"; break;
          case Intrinsic::floor: body << "  " << lhs << (t->isFloatTy() ? "floorf(" : "floor(") << arg(0) << ");\n"; break;
          case Intrinsic::ceil: body << "  " << lhs << (t->isFloatTy() ? "ceilf(" : "ceil(") << arg(0) << ");\n"; break;
          case Intrinsic::trunc: body << "  " << lhs << (t->isFloatTy() ? "truncf(" : "trunc(") << arg(0) << ");\n"; break;
          case Intrinsic::rint: case Intrinsic::nearbyint: body << "  " << lhs << (t->isFloatTy() ? "rintf(" : "rint(") << arg(0) << ");\n"; break;
          case Intrinsic::sqrt: body << "  " << lhs << (t->isFloatTy() ? "sqrtf(" : "sqrt(") << arg(0) << ");\n"; break;
          case Intrinsic::fmuladd: body << "  " << lhs << "((" << cty(t) << ")((" << arg(0) << " * " << arg(1) << ") + " << arg(2) << "));\n"; break;
          case Intrinsic::bswap: body << "  " << lhs << "vp_bswap" << t->getIntegerBitWidth() << "(" << arg(0) << ");\n"; break;
          case Intrinsic::ctpop: body << "  " << lhs << "(" << cty(t) << ")vp_ctpop((u64)" << arg(0) << ");\n"; break;
          case Intrinsic::ctlz: body << "  " << lhs << "(" << cty(t) << ")vp_ctlz((u64)" << arg(0) << ", " << t->getIntegerBitWidth() << ");\n"; break;
          case Intrinsic::cttz: body << "  " << lhs << "(" << cty(t) << ")vp_cttz((u64)" << arg(0) << ", " << t->getIntegerBitWidth() << ");\n"; break;
          case Intrinsic::fshl: case Intrinsic::fshr: {
            unsigned w = t->getIntegerBitWidth();
            string W = w <= 32 ? "u64" : "u128";
            string cat = "(((" + W + ")(" + arg(0) + ") << " + std::to_string(w) + ") | (" + W + ")(" + arg(1) + "))";
            string sh = "((" + W + ")(" + arg(2) + ") % " + std::to_string(w) + ")";
            if (id == Intrinsic::fshl) body << "  " << lhs << maskExpr(w, "(" + cat + " << " + sh + ") >> " + std::to_string(w)) << ";\n";
            else body << "  " << lhs << maskExpr(w, cat + " >> " + sh) << ";\n";
            break;
          }
          case Intrinsic::is_constant: body << "  " << lhs << "0;\n"; break;
          case Intrinsic::objectsize: body << "  " << lhs << "(" << cty(t) << ")" << (cast<ConstantInt>(ci->getArgOperand(1))->isOne() ? "0" : "~0ULL") << ";\n"; break;
          case Intrinsic::uadd_with_overflow: case Intrinsic::usub_with_overflow: case Intrinsic::umul_with_overflow:
          case Intrinsic::sadd_with_overflow: case Intrinsic::ssub_with_overflow: case Intrinsic::smul_with_overflow: {
            Type* it = ci->getArgOperand(0)->getType();
            unsigned w = it->getIntegerBitWidth();
            if (w != 32 && w != 64) die("with.overflow width");
            bool sg = id == Intrinsic::sadd_with_overflow || id == Intrinsic::ssub_with_overflow || id == Intrinsic::smul_with_overflow;
            const char* op = (id == Intrinsic::uadd_with_overflow || id == Intrinsic::sadd_with_overflow) ? "add" :
                             (id == Intrinsic::usub_with_overflow || id == Intrinsic::ssub_with_overflow) ? "sub" : "mul";
            string n = fc.names[&I];
            string T = sg ? sty(w) : ity(w);
            body << "  { " << T << " r__; " << n << ".f1 = (u8)__builtin_" << op << "_overflow((" << T << ")" << arg(0) << ", (" << T << ")" << arg(1) << ", &r__); " << n << ".f0 = (" << ity(w) << ")r__; }\n";
            break;
          }
          default:
            die("unsupported intrinsic " + cf->getName().str() + " in " + F->getName().str());
          }
        } else {
          StringRef cn = cf ? cf->getName() : StringRef("");
          // harness API
          if (cn == "vp_assert") {
            string cnd = arg(1);
            body << idDispatch(ci->getArgOperand(0), [&](const string& id) { return "VP_ASSERT(\"" + id + "\", " + cnd + ");"; });
          } else if (cn == "vp_assume") {
            body << "  VP_ASSUME(" << arg(0) << ");\n";
          } else if (cn == "vp_cover") {
            body << idDispatch(ci->getArgOperand(0), [&](const string& id) { return "VP_COVER(\"" + id + "\");"; });
          } else if (cn == "vp_known") {
            string cnd = arg(1);
            body << idDispatch(ci->getArgOperand(0), [&](const string& id) { return "VP_KNOWN(" + sanitize(id) + ", \"" + id + "\", " + cnd + ");"; });
          } else if (cn == "vp_observe") {
            string ov = arg(1);
            body << idDispatch(ci->getArgOperand(0), [&](const string& id) { return "VP_OBSERVE(\"" + id + "\", (u64)" + ov + ");"; });
          } else if ((cn == "_Znwm" || cn == "_Znam") && isa<ConstantInt>(ci->getArgOperand(0)) && [&]() {
                       // typed allocation: new T with a constant size that is used as a T* -> malloc(sizeof(T)), so that
                       // CBMC creates a typed dynamic object (vptr and fields then constant-propagate through symex)
                       uint64_t n = cast<ConstantInt>(ci->getArgOperand(0))->getZExtValue();
                       for (const User* u : ci->users())
                         if (auto* bc = dyn_cast<BitCastInst>(u))
                           if (auto* pt = dyn_cast<PointerType>(bc->getType()))
                             if (auto* st = dyn_cast<StructType>(pt->getPointerElementType()))
                               if (!st->isOpaque() && C.DL->getTypeAllocSize(st) == n) {
                                 defineAggregate(st);
                                 body << "  " << lhs << "(u8*)malloc(sizeof(" << cty(st) << ")); __CPROVER_assume(" << fc.names[&I] << " != 0);\n";
                                 return true;
                               }
                       return false;
                     }()) {
          } else {
            FunctionType* ft = ci->getFunctionType();
            bool ext = cf && cf->isDeclaration();
            string callee;
            if (cf) callee = gname(cf);
            else callee = "(" + val(ci->getCalledOperand()) + ")";
            string args;
            for (unsigned i = 0; i < ci->arg_size(); i++) {
              if (i) args += ", ";
              string a = arg(i);
              Type* at = ci->getArgOperand(i)->getType();
              if (at->isStructTy() || at->isArrayTy()) defineAggregate(at);
              if (ext && at->isPointerTy()) a = "(void*)(" + a + ")";
              else if (ext && i >= ft->getNumParams() && at->isIntegerTy() && at->getIntegerBitWidth() < 32) a = "(u32)(" + a + ")";
              args += a;
            }
            int64_t slot = 0;
            std::vector<const Function*> cands;
            if (!cf && vtableSlot(ci->getCalledOperand(), slot)) cands = slotCandidates(slot, ft);
            if (!cands.empty()) {
              string fpv = val(ci->getCalledOperand());
              body << "  ";
              for (const Function* cand : cands) {
                string cn2 = gname(cand);
                string cargs;
                FunctionType* cft = cand->getFunctionType();
                bool cext = cand->isDeclaration();
                for (unsigned i = 0; i < ci->arg_size(); i++) {
                  if (i) cargs += ", ";
                  string a = arg(i);
                  Type* at = ci->getArgOperand(i)->getType();
                  if (at->isPointerTy()) a = cext ? "(void*)(" + a + ")" : "(" + cty(cft->getParamType(i)) + ")(" + a + ")";
                  cargs += a;
                }
                string call = cn2 + "(" + cargs + ")";
                if (t->isPointerTy()) call = "(" + cty(t) + ")" + call;
                body << "if ((void*)(" << fpv << ") == (void*)(" << cn2 << ")) { " << lhs << call << "; } else ";
              }
              body << "{ VP_CHK(\"virtual-call-target-not-in-any-vtable-slot\", 0); __CPROVER_assume(0); }\n";
            } else {
            if (ext && (t->isStructTy() || t->isArrayTy())) {
              body << "  " << callee << "((void*)&" << fc.names[&I] << (args.empty() ? "" : ", ") << args << ");\n";
            } else {
            string call = callee + "(" + args + ")";
            if (ext && t->isPointerTy()) call = "(" + cty(t) + ")" + call;
            body << "  " << lhs << call << ";\n";
            }
            }
            if (cf && cf->doesNotReturn()) body << "  VP_CHK(\"noreturn-call-returned\", 0); __CPROVER_assume(0);\n";
          }
        }
      } else if (auto* br = dyn_cast<BranchInst>(&I)) {
        if (br->isUnconditional()) body << "  " << edge(&B, br->getSuccessor(0)) << "\n";
        else body << "  if (" << val(br->getCondition()) << ") { " << edge(&B, br->getSuccessor(0)) << " } else { " << edge(&B, br->getSuccessor(1)) << " }\n";
      } else if (auto* sw = dyn_cast<SwitchInst>(&I)) {
        unsigned w = sw->getCondition()->getType()->getIntegerBitWidth();
        body << "  switch ((" << wideTy(w) << ")" << val(sw->getCondition()) << ") {\n";
        for (auto& cs : sw->cases())
          body << "    case " << cs.getCaseValue()->getZExtValue() << "ULL: { " << edge(&B, cs.getCaseSuccessor()) << " }\n";
        body << "    default: { " << edge(&B, sw->getDefaultDest()) << " }\n  }\n";
      } else if (auto* ri = dyn_cast<ReturnInst>(&I)) {
        if (ri->getReturnValue()) body << "  return " << val(ri->getReturnValue()) << ";\n";
        else body << "  return;\n";
      } else if (isa<UnreachableInst>(I)) {
        body << "  VP_CHK(\"unreachable\", 0); __CPROVER_assume(0);\n";
      } else if (auto* rmw = dyn_cast<AtomicRMWInst>(&I)) {
        // single-threaded semantics (stated in DESIGN: atomics are executed as plain ops)
        string p = val(rmw->getPointerOperand()), v = val(rmw->getValOperand());
        unsigned bop = 0;
        switch (rmw->getOperation()) {
        case AtomicRMWInst::Add: bop = Instruction::Add; break; case AtomicRMWInst::Sub: bop = Instruction::Sub; break;
        case AtomicRMWInst::And: bop = Instruction::And; break; case AtomicRMWInst::Or: bop = Instruction::Or; break;
        case AtomicRMWInst::Xor: bop = Instruction::Xor; break; case AtomicRMWInst::Xchg: bop = 0; break;
        default: die("atomicrmw op");
        }
        body << "  " << lhs << "*(" << p << ");\n";
        body << "  *(" << p << ") = " << (bop ? binExpr(bop, t, fc.names[&I], v) : v) << ";\n";
      } else if (isa<FenceInst>(I)) {
        body << "  ;\n";
      } else {
        die("unsupported instruction in " + F->getName().str() + ": " + str(&I));
      }
    }
  }
  out << defProto(F, &fc) << " {\n" << decls.str() << body.str() << "}\n\n";
  FC = nullptr;
}

int main(int argc, char** argv) {
  string in, outp, entry = "vp_main";
  bool lineInfo = true, prep = false;
  std::set<string> stubs;
  std::vector<string> skipCtors;
  std::vector<string> stubSubs;   // 'a+b': functions whose name contains both a and b are turned into declarations  // global constructors (by name substring) not executed: stated per harness
  for (int i = 1; i < argc; i++) {
    string a = argv[i];
    if (a == "-o") outp = argv[++i];
    else if (a == "--prep") prep = true;
    else if (a == "--stub") stubs.insert(argv[++i]);
    else if (a == "--stub-containing") stubSubs.push_back(argv[++i]);
    else if (a == "--skip-ctor") skipCtors.push_back(argv[++i]);
    else if (a == "--devirt-exclude") g_devirtExclude.push_back(argv[++i]);
    else if (a == "--entry") entry = argv[++i];
    else if (a == "--no-line") lineInfo = false;
    else in = a;
  }
  if (in.empty() || outp.empty()) die("usage: ll2c in.bc -o out.c");
  LLVMContext Ctx; SMDiagnostic E;
  auto M = parseIRFile(in, E, Ctx);
  if (!M) { E.print("ll2c", errs()); return 2; }
  if (prep) {
    // pre-pass before the second opt run: drop noinline (set by -fno-inline in phase 1, which kept libstdc++'s
    // extern-template members external) and turn the listed functions into declarations (resolved by models/)
    for (Function& F : *M) {
      F.removeFnAttr(Attribute::NoInline);
      F.removeFnAttr(Attribute::OptimizeNone);
      bool bySub = false;
      for (auto& sub : stubSubs) {
        size_t plus = sub.find('+');
        string a1 = sub.substr(0, plus), b1 = plus == string::npos ? "" : sub.substr(plus + 1);
        if (F.getName().contains(a1) && (b1.empty() || F.getName().contains(b1))) bySub = true;
      }
      if ((bySub || stubs.count(F.getName().str())) && !F.isDeclaration()) {
        F.deleteBody();
        F.setLinkage(GlobalValue::ExternalLinkage);
        F.setComdat(nullptr);
        outs() << "STUBBED " << F.getName() << "\n";
      }
    }
    std::error_code EC;
    raw_fd_ostream os(outp, EC, sys::fs::OF_None);
    if (EC) die("cannot write " + outp);
    WriteBitcodeToFile(*M, os);
    return 0;
  }
  C.M = M.get(); C.DL = &M->getDataLayout();
  Function* entryF = M->getFunction(entry);
  if (!entryF || entryF->isDeclaration()) die("entry function not found: " + entry);
  std::vector<const Function*> roots{entryF};
  std::vector<std::pair<unsigned, const Function*>> ctors;
  if (GlobalVariable* gc = M->getGlobalVariable("llvm.global_ctors")) {
    if (gc->hasInitializer())
      if (auto* arr = dyn_cast<ConstantArray>(gc->getInitializer()))
        for (auto& op : arr->operands()) {
          auto* cs = cast<ConstantStruct>(op.get());
          unsigned prio = cast<ConstantInt>(cs->getOperand(0))->getZExtValue();
          if (auto* f = dyn_cast<Function>(cs->getOperand(1)->stripPointerCasts())) {
            bool skip = false;
            for (auto& sc : skipCtors) if (f->getName().contains(sc)) skip = true;
            if (skip) { outs() << "SKIPPED-CTOR " << f->getName() << "\n"; continue; }
            ctors.push_back({prio, f}); roots.push_back(f);
          }
        }
  }
  std::stable_sort(ctors.begin(), ctors.end(), [](auto& a, auto& b) { return a.first < b.first; });
  // reserve names of defined externally visible functions first
  C.usedNames.insert("main");
  computeReachable(roots);
  for (const Function* F : C.fOrder) if (!F->isDeclaration() && !F->hasLocalLinkage()) { C.usedNames.insert(sanitize(F->getName())); }

  std::ostringstream protos, globalsDecl, globalsDef, funcs;
  for (const GlobalVariable* G : C.gOrder) {
    Type* vt = G->getValueType();
    if (vt->isStructTy() || vt->isArrayTy()) defineAggregate(vt);
    string n = gname(G);
    if (G->isDeclaration()) { globalsDecl << "extern " << cty(vt) << " " << n << "; /* " << G->getName().str() << " */\n"; continue; }
    globalsDecl << "extern " << cty(vt) << " " << n << ";\n";
  }
  for (const Function* F : C.fOrder) {
    if (F->isIntrinsic()) continue;
    StringRef n = F->getName();
    if (n == "vp_assert" || n == "vp_assume" || n == "vp_cover" || n == "vp_known" || n == "vp_observe") continue;
    if (F->isDeclaration()) protos << externProto(F) << "; /* " << n.str() << " */\n";
    else protos << defProto(F, nullptr) << ";\n";
  }
  for (const GlobalVariable* G : C.gOrder) {
    if (G->isDeclaration()) continue;
    Type* vt = G->getValueType();
    globalsDef << cty(vt) << " " << gname(G) << " = " << constExpr(G->getInitializer(), true) << ";\n";
  }
  for (const Function* F : C.fOrder) {
    if (F->isDeclaration()) continue;
    emitFunction(F, funcs, lineInfo);
  }
  // struct definitions: force definition of everything named so far
  {
    size_t i = 0, j = 0;
    while (i < C.structOrder.size() || j < C.arrayOrder.size()) {
      while (i < C.structOrder.size()) defineAggregate(C.structOrder[i++]);
      while (j < C.arrayOrder.size()) defineAggregate(C.arrayOrder[j++]);
    }
  }
  std::ofstream o(outp);
  o << "/* generated by ll2c from " << in << " -- do not edit */\n#include \"vp_prelude.h\"\n\n";
  o << "/* ---- type forward declarations ---- */\n" << C.typeFwd.str();
  o << "\n/* ---- type definitions ---- */\n" << C.typeDefs.str();
  o << "\n/* ---- globals ---- */\n" << globalsDecl.str();
  o << "\n/* ---- prototypes ---- */\n" << protos.str();
  o << "\n/* ---- global definitions ---- */\n" << globalsDef.str();
  o << "\n/* ---- functions ---- */\n" << funcs.str();
  o << "void vp_entry(void) {\n";
  for (auto& c : ctors) o << "  " << gname(c.second) << "();\n";
  o << "  " << gname(entryF) << "();\n}\n";
  o.close();
  // summary to stdout: defined functions + externals (for evidence)
  for (const Function* F : C.fOrder) {
    if (F->isIntrinsic()) continue;
    outs() << (F->isDeclaration() ? "X " : "D ") << F->getName() << "\n";
  }
  for (const GlobalVariable* G : C.gOrder) if (G->isDeclaration()) outs() << "XG " << G->getName() << "\n";
  return 0;
}
