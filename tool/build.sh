#!/bin/sh
# builds /verif/tool/ll2c from ll2c.cpp (offline; needs llvm-14 dev files present in the image)
set -e
cd "$(dirname "$0")"
if [ ! -x ll2c ] || [ ll2c.cpp -nt ll2c ]; then
  g++ -O1 -std=c++17 ll2c.cpp $(llvm-config-14 --cxxflags | sed 's/-std=c++14//') -std=c++17 -fexceptions $(llvm-config-14 --ldflags --libs) -o ll2c
fi
