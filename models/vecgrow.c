/* std::vector<unsigned char>::_M_realloc_insert (growth path of push_back/emplace_back).
 * Symbolic build: harnesses reserve the capacity their bound needs (capacity is unobservable), so reaching this path
 * means the stated size bound was exceeded; it is reported like an unwinding assertion (bound too small), never
 * silently truncated. Concrete (gcc) build: real growth, so random validation tapes behave like the native build. */
#include "vp_prelude.h"
void* malloc(unsigned long); void free(void*);
typedef struct { u8* b; u8* e; u8* c; } vvec;
static void grow_insert(void* v, void* pos, void* x) {
#if defined(__CPROVER__) && defined(VP_VECGROW_FIXED)
  /* job option -DVP_VECGROW_FIXED=<bytes>: for vectors that are local to the code under test (the harness cannot reserve
   * their capacity): the first growth moves the content into ONE block of fixed capacity (capacity is unobservable; dynamic
   * objects keep a concrete size); growing beyond it is reported like an unwinding assertion */
  vvec* w = v;
  u64 n = 0, at = 0;
  if (w->b) { n = (u64)(w->e - w->b); at = (u64)((u8*)pos - w->b); }   /* an empty vector has null pointers */
  /* a vector that already owns the fixed-capacity block can only get here by exceeding it: report the bound before any copy
   * loop is unrolled (choose VP_VECGROW_FIXED different from the capacities the harness reserves) */
  if (n >= VP_VECGROW_FIXED || (w->b && (u64)(w->c - w->b) == VP_VECGROW_FIXED)) {
    __CPROVER_assert(0, "unwinding assertion: vector<uint8_t> grew beyond the fixed capacity VP_VECGROW_FIXED");
    __CPROVER_assume(0);
  }
  u8* nb = malloc(VP_VECGROW_FIXED);
  __CPROVER_assume(nb != 0);
  if (w->b) for (u64 i = 0; i < VP_VECGROW_FIXED; i++) { if (i < at) nb[i] = w->b[i]; else if (i > at && i <= n) nb[i] = w->b[i - 1]; }
  nb[at] = *(u8*)x;
  if (w->b) free(w->b);
  w->b = nb; w->e = nb + n + 1; w->c = nb + VP_VECGROW_FIXED;
#elif defined(__CPROVER__)
  (void)v; (void)pos; (void)x;
  __CPROVER_assert(0, "unwinding assertion: vector<uint8_t> grew beyond the capacity reserved by the harness bound");
  __CPROVER_assume(0);
#else
  vvec* w = v;
  u64 n = (u64)(w->e - w->b), at = (u64)((u8*)pos - w->b);
  u64 nc = n ? 2 * n : 1;
  u8* nb = malloc(nc);
  for (u64 i = 0; i < at; i++) nb[i] = w->b[i];
  nb[at] = *(u8*)x;
  for (u64 i = at; i < n; i++) nb[i + 1] = w->b[i];
  free(w->b);
  w->b = nb; w->e = nb + n + 1; w->c = nb + nc;
#endif
}
void vpx__ZNSt6vectorIhSaIhEE17_M_realloc_insertIJRKhEEEvN9__gnu_cxx17__normal_iteratorIPhS1_EEDpOT_(void* v, void* pos, void* x) { grow_insert(v, pos, x); }
void vpx__ZNSt6vectorIhSaIhEE17_M_realloc_insertIJhEEEvN9__gnu_cxx17__normal_iteratorIPhS1_EEDpOT_(void* v, void* pos, void* x) { grow_insert(v, pos, x); }

/* vector<uint8_t>::_M_fill_insert(pos, n, value) and _M_default_append(n) (resize() beyond the current size): same policy --
 * harnesses pre-size their buffers, reaching the growing path symbolically is a bound violation */
static void fill_insert(void* v, void* pos, u64 n, u8 val) {
#ifdef __CPROVER__
  (void)v; (void)pos; (void)n; (void)val;
  __CPROVER_assert(0, "unwinding assertion: vector<uint8_t> resized beyond the size provided by the harness bound");
  __CPROVER_assume(0);
#else
  vvec* w = v;
  u64 sz = (u64)(w->e - w->b), at = (u64)((u8*)pos - w->b), cap = (u64)(w->c - w->b);
  if (sz + n > cap) {
    u64 nc = sz + (sz > n ? sz : n);
    u8* nb = malloc(nc ? nc : 1);
    for (u64 i = 0; i < sz; i++) nb[i] = w->b[i];
    free(w->b);
    w->b = nb; w->e = nb + sz; w->c = nb + nc;
  }
  for (u64 i = sz; i > at; i--) w->b[i - 1 + n] = w->b[i - 1];
  for (u64 i = 0; i < n; i++) w->b[at + i] = val;
  w->e += n;
#endif
}
void vpx__ZNSt6vectorIhSaIhEE14_M_fill_insertEN9__gnu_cxx17__normal_iteratorIPhS1_EEmRKh(void* v, void* pos, u64 n, void* valp) { fill_insert(v, pos, n, *(u8*)valp); }
void vpx__ZNSt6vectorIhSaIhEE17_M_default_appendEm(void* v, u64 n) { vvec* w = v; fill_insert(v, w->e, n, 0); }
