/* libc pieces used by ebusd, C locale, glibc semantics (DESIGN 2.3). */
#include "vp_prelude.h"
void* malloc(unsigned long); void free(void*); void* calloc(unsigned long, unsigned long);
i32 vp_errno;
void* vpx___errno_location(void) { return &vp_errno; }
void* vpx_malloc(u64 n) { void* p = malloc(n ? n : 1); __CPROVER_assume(p != 0); return p; }
void* vpx_calloc(u64 n, u64 m) { void* p = calloc(n ? n : 1, m ? m : 1); __CPROVER_assume(p != 0); return p; }
void vpx_free(void* p) { free(p); }
void vpx_abort(void) { VP_CHK("abort-called", 0); __CPROVER_assume(0); }
u64 vpx_strlen(void* s) { const char* c = s; u64 n = 0; while (c[n]) n++; return n; }
u32 vpx_memcmp(void* a, void* b, u64 n) {
  const u8* x = a; const u8* y = b;
  for (u64 i = 0; i < n; i++) if (x[i] != y[i]) return x[i] < y[i] ? (u32)-1 : 1;
  return 0;
}
u32 vpx_strcmp(void* a, void* b) {
  const u8* x = a; const u8* y = b;
  for (u64 i = 0;; i++) { if (x[i] != y[i]) return x[i] < y[i] ? (u32)-1 : 1; if (!x[i]) return 0; }
}
u32 vpx_strncmp(void* a, void* b, u64 n) {
  const u8* x = a; const u8* y = b;
  for (u64 i = 0; i < n; i++) { if (x[i] != y[i]) return x[i] < y[i] ? (u32)-1 : 1; if (!x[i]) return 0; }
  return 0;
}
static u8 lc(u8 c) { return (c >= 'A' && c <= 'Z') ? (u8)(c + 32) : c; }
u32 vpx_strcasecmp(void* a, void* b) {
  const u8* x = a; const u8* y = b;
  for (u64 i = 0;; i++) { u8 p = lc(x[i]), q = lc(y[i]); if (p != q) return (u32)((i32)p - (i32)q); if (!p) return 0; }
}
void* vpx_strchr(void* s, u32 c) { char* p = s; for (;; p++) { if (*p == (char)c) return p; if (!*p) return 0; } }
u32 vpx_isprint(u32 c) { return c >= 0x20 && c <= 0x7e; }
u32 vpx_isalnum(u32 c) { return (c >= '0' && c <= '9') || (c >= 'a' && c <= 'z') || (c >= 'A' && c <= 'Z'); }
u32 vpx_isdigit(u32 c) { return c >= '0' && c <= '9'; }
u32 vpx_isspace(u32 c) { return c == ' ' || (c >= 9 && c <= 13); }
u32 vpx_toupper(u32 c) { return (c >= 'a' && c <= 'z') ? c - 32 : c; }
u32 vpx_tolower(u32 c) { return (c >= 'A' && c <= 'Z') ? c + 32 : c; }

static int digval(u8 c) {
  if (c >= '0' && c <= '9') return c - '0';
  if (c >= 'a' && c <= 'z') return c - 'a' + 10;
  if (c >= 'A' && c <= 'Z') return c - 'A' + 10;
  return 99;
}
/* common scanner: returns magnitude (saturated), *neg, *ovf, end pointer or str when no digits */
static u64 scan_int(const char* s, char** end, u32 base, int* neg, int* ovf) {
  const char* p = s;
  *neg = 0; *ovf = 0;
  while (*p == ' ' || (*p >= 9 && *p <= 13)) p++;
  if (*p == '-') { *neg = 1; p++; } else if (*p == '+') p++;
  if ((base == 0 || base == 16) && p[0] == '0' && (p[1] == 'x' || p[1] == 'X') && digval((u8)p[2]) < 16) { p += 2; base = 16; }
  else if (base == 0) base = (p[0] == '0') ? 8 : 10;
  u64 v = 0; int any = 0;
  for (;; p++) {
    int d = digval((u8)*p);
    if (d >= (int)base) break;
    any = 1;
    if (*ovf) continue;
    if (v > (~(u64)0 - (u64)d) / base) { *ovf = 1; v = ~(u64)0; }
    else v = v * base + (u64)d;
  }
  if (end) *end = (char*)(any ? p : s);
  return any ? v : 0;
}
u64 vpx_strtoul(void* s, void* end, u32 base) {
  int neg, ovf;
  u64 v = scan_int(s, end, base, &neg, &ovf);
  if (ovf) { vp_errno = 34; return ~(u64)0; }
  return neg ? (u64)0 - v : v;
}
u64 vpx_strtol(void* s, void* end, u32 base) {
  int neg, ovf;
  u64 v = scan_int(s, end, base, &neg, &ovf);
  if (neg) {
    if (ovf || v > 0x8000000000000000ULL) { vp_errno = 34; return 0x8000000000000000ULL; }
    return (u64)0 - v;
  }
  if (ovf || v > 0x7fffffffffffffffULL) { vp_errno = 34; return 0x7fffffffffffffffULL; }
  return v;
}
u64 vpx_strtoull(void* s, void* end, u32 base) { return vpx_strtoul(s, end, base); }
u64 vpx_strtoll(void* s, void* end, u32 base) { return vpx_strtol(s, end, base); }

/* mini sscanf (DESIGN 2.3): literal characters, white space, %%, %1x. Any other directive in the *format* is reported:
 * ebusd only ever uses "%1x%1x", so a different directive means the format string is not the constant it should be. */
#include <stdarg.h>
static int is_ws(char c) { return c == ' ' || (c >= 9 && c <= 13); }
u32 vpx___isoc99_sscanf(void* strv, void* fmtv, ...) {
  const char* s = strv; const char* f = fmtv;
  va_list ap;
  va_start(ap, fmtv);
  u32 n = 0; int any_conv = 0;
  while (*f) {
    if (is_ws(*f)) { while (is_ws(*s)) s++; f++; continue; }
    if (*f != '%') { if (*s != *f) break; s++; f++; continue; }
    f++;
    if (*f == '%') { while (is_ws(*s)) s++; if (*s != '%') break; s++; f++; continue; }
    if (f[0] == '1' && f[1] == 'x') {
      f += 2;
      while (is_ws(*s)) s++;
      if (!*s) { if (!any_conv && n == 0) { va_end(ap); return (u32)-1; } break; }
      int d = digval((u8)*s);
      if (d >= 16) break;
      any_conv = 1;
      u32* out = va_arg(ap, u32*);
      *out = (u32)d;
      s++; n++;
      continue;
    }
    VP_CHK("format-string:directive-other-than-%1x-in-sscanf-format", 0);
    __CPROVER_assume(0);
  }
  va_end(ap);
  return n;
}
/* strtod: not modelled as a text parser (harnesses that exercise it replace it by a contract stub); reaching this is reported */
double vpx_strtod(void* s, void* end) { (void)s; (void)end; VP_CHK("unmodelled:strtod-text-parser-reached", 0); __CPROVER_assume(0); return 0.0; }
u32 vpx_bcmp(void* a, void* b, u64 n) { return vpx_memcmp(a, b, n) != 0; }
