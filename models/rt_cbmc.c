/* symbolic runtime: nondet sources. The local name vp_nd_val is what the driver looks for in traces. */
#include "vp_prelude.h"
#ifdef __CPROVER__
u8 nondet_u8(void); u16 nondet_u16(void); u32 nondet_u32(void); u64 nondet_u64(void);
u8 vpx_vp_nondet_u8(void) { u8 vp_nd_val = nondet_u8(); return vp_nd_val; }
u16 vpx_vp_nondet_u16(void) { u16 vp_nd_val = nondet_u16(); return vp_nd_val; }
u32 vpx_vp_nondet_u32(void) { u32 vp_nd_val = nondet_u32(); return vp_nd_val; }
u64 vpx_vp_nondet_u64(void) { u64 vp_nd_val = nondet_u64(); return vp_nd_val; }
#endif
