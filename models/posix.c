/* POSIX pieces for the sequential harnesses: mutex/cond operations are no-ops (single thread of control; the
 * concurrent C04 harness uses CBMC's own pthread library instead), thread creation is flagged if reached. */
#include "vp_prelude.h"
u32 vpx_pthread_mutex_init(void* m, void* a) { (void)m; (void)a; return 0; }
u32 vpx_pthread_mutex_destroy(void* m) { (void)m; return 0; }
u32 vpx_pthread_mutex_lock(void* m) { (void)m; return 0; }
u32 vpx_pthread_mutex_unlock(void* m) { (void)m; return 0; }
u32 vpx_pthread_mutexattr_init(void* a) { (void)a; return 0; }
u32 vpx_pthread_mutexattr_settype(void* a, u32 t) { (void)a; (void)t; return 0; }
u32 vpx_pthread_mutexattr_destroy(void* a) { (void)a; return 0; }
u32 vpx_pthread_cond_init(void* c, void* a) { (void)c; (void)a; return 0; }
u32 vpx_pthread_cond_destroy(void* c) { (void)c; return 0; }
u32 vpx_pthread_cond_signal(void* c) { (void)c; return 0; }
u32 vpx_pthread_cond_broadcast(void* c) { (void)c; return 0; }
u32 vpx_pthread_cond_wait(void* c, void* m) { (void)c; (void)m; return 0; }
u32 vpx_pthread_cond_timedwait(void* c, void* m, void* t) { (void)c; (void)m; (void)t; return 110; /* ETIMEDOUT */ }
u32 vpx_pthread_create(void* t, void* a, void* f, void* arg) { (void)t; (void)a; (void)f; (void)arg; VP_CHK("unmodelled:pthread_create-reached", 0); return 11; }
u32 vpx_pthread_join(u64 t, void* r) { (void)t; (void)r; return 3; }
u32 vpx_pthread_cancel(u64 t) { (void)t; return 0; }
u32 vpx_pthread_detach(u64 t) { (void)t; return 0; }
u32 vpx_pthread_setname_np(u64 t, void* n) { (void)t; (void)n; return 0; }
u32 vpx_usleep(u32 us) { (void)us; return 0; }
double vpx_difftime(u64 a, u64 b) { return (double)(i64)a - (double)(i64)b; }
