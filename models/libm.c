/* libm pieces (DESIGN 2.3): exp2 exact for integer arguments in -1100..1100 (all ebusd call sites pass integers),
 * ilogb/scalbln/round/isfinite on IEEE-754 binary64 via bit manipulation */
#include "vp_prelude.h"
double vpx_exp2(double x) {
  i64 n = (i64)x;
  if ((double)n != x || n < -1074 || n > 1023) { VP_CHK("model-limit:exp2-non-integer-argument", 0); __CPROVER_assume(0); }
  if (n >= -1022) return vp_bits2d((u64)(n + 1023) << 52);
  return vp_bits2d((u64)1 << (n + 1074));
}
double vpx_round(double x) { return round(x); }
float vpx_roundf(float x) { return roundf(x); }
u32 vpx_ilogb(double x) {
  u64 b = vp_d2bits(x) & 0x7fffffffffffffffULL;
  if (b == 0) return 0x80000001u;              /* FP_ILOGB0 = -INT_MAX on glibc x86-64 ... */
  u32 e = (u32)(b >> 52);
  if (e == 0x7ff) return (b << 12) ? 0x80000000u : 0x7fffffffu;  /* NaN -> FP_ILOGBNAN (INT_MIN), inf -> INT_MAX */
  if (e == 0) { u32 k = 0; u64 m = b; while (!(m & ((u64)1 << 51))) { m <<= 1; k++; } return (u32)(-1023 - (i32)k); }
  return e - 1023;
}
double vpx_scalbln(double x, u64 n) {
  i64 k = (i64)n;
  if (k > 2100) k = 2100; if (k < -2100) k = -2100;
  double r = x;
  /* exact scaling by powers of two in at most three steps */
  while (k > 1023) { r *= vp_bits2d((u64)2046 << 52); k -= 1023; }
  while (k < -1022) { r *= vp_bits2d((u64)1 << 52); k += 1022; }
  return r * vp_bits2d((u64)(k + 1023) << 52);
}
double vpx_ldexp(double x, u32 n) { return vpx_scalbln(x, (u64)(i64)(i32)n); }
