/* concrete runtime for the gcc build of the generated C (translator validation, DESIGN 2.2/3) */
#include "vp_prelude.h"
#ifndef __CPROVER__
#include "rt_tape.h"
u8 vpx_vp_nondet_u8(void) { return (u8)vp_tape_next(); }
u16 vpx_vp_nondet_u16(void) { return (u16)vp_tape_next(); }
u32 vpx_vp_nondet_u32(void) { return (u32)vp_tape_next(); }
u64 vpx_vp_nondet_u64(void) { return (u64)vp_tape_next(); }
void vp_rt_assert(const char* id, int c) { printf("ASSERT %s %d\n", id, c ? 1 : 0); if (!c) vp_fail_count++; }
void vp_rt_chk(const char* id, int c) { if (!c) { printf("CHK-FAIL %s\n", id); vp_fail_count++; } }
void vp_rt_assume(int c) { if (!c) { printf("ASSUME-FALSE\n"); vp_finish(); exit(0); } }
void vp_rt_cover(const char* id) { printf("COVER %s\n", id); }
void vp_rt_observe(const char* id, u64 v) { printf("OBS %s %llu\n", id, v); }
void vp_entry(void);
int main(void) { vp_entry(); vp_finish(); return 0; }
#endif
