/* out-of-line libstdc++ container primitives (DESIGN 2.3 rbtree.c/list.c):
 * _Rb_tree: plain BST insert/erase WITHOUT rebalancing -- the in-order sequence and therefore find/lower_bound/iteration
 * results are identical to the red-black tree; balance is unobservable. Colours keep only the header/root convention
 * that _Rb_tree_decrement relies on (header red, root black). std::list hooks verbatim. */
#include "vp_prelude.h"
/* same tag and fields as the ll2c output for %"struct.std::_Rb_tree_node_base" = { i32 color, parent*, left*, right* } */
struct T_struct_std___Rb_tree_node_base { u32 f0; struct T_struct_std___Rb_tree_node_base* f1; struct T_struct_std___Rb_tree_node_base* f2; struct T_struct_std___Rb_tree_node_base* f3; };
typedef struct T_struct_std___Rb_tree_node_base rbn;
#define color f0
#define parent f1
#define left f2
#define right f3
#define RED 0
#define BLACK 1
static rbn* rb_min(rbn* x) { while (x->left) x = x->left; return x; }
static rbn* rb_max(rbn* x) { while (x->right) x = x->right; return x; }
void vpx__ZSt29_Rb_tree_insert_and_rebalancebPSt18_Rb_tree_node_baseS0_RS_(u8 insert_left, void* xv, void* pv, void* hv) {
  rbn* x = xv; rbn* p = pv; rbn* h = hv;
  x->parent = p; x->left = 0; x->right = 0; x->color = RED;
  if (insert_left) {
    p->left = x;
    if (p == h) { h->parent = x; h->right = x; x->color = BLACK; }
    else if (p == h->left) h->left = x;
  } else {
    p->right = x;
    if (p == h->right) h->right = x;
  }
}
static rbn* rb_inc(rbn* x) {
  if (x->right) { x = x->right; while (x->left) x = x->left; return x; }
  rbn* y = x->parent;
  while (x == y->right) { x = y; y = y->parent; }
  if (x->right != y) x = y;
  return x;
}
static rbn* rb_dec(rbn* x) {
  if (x->color == RED && x->parent->parent == x) return x->right;
  if (x->left) { rbn* y = x->left; while (y->right) y = y->right; return y; }
  rbn* y = x->parent;
  while (x == y->left) { x = y; y = y->parent; }
  return y;
}
void* vpx__ZSt18_Rb_tree_incrementPSt18_Rb_tree_node_base(void* x) { return rb_inc(x); }
void* vpx__ZSt18_Rb_tree_incrementPKSt18_Rb_tree_node_base(void* x) { return rb_inc(x); }
void* vpx__ZSt18_Rb_tree_decrementPSt18_Rb_tree_node_base(void* x) { return rb_dec(x); }
void* vpx__ZSt18_Rb_tree_decrementPKSt18_Rb_tree_node_base(void* x) { return rb_dec(x); }
void* vpx__ZSt28_Rb_tree_rebalance_for_erasePSt18_Rb_tree_node_baseRS_(void* zv, void* hv) {
  rbn* z = zv; rbn* h = hv;
  rbn* y = z; rbn* x = 0;
  if (!y->left) x = y->right;
  else if (!y->right) x = y->left;
  else { y = y->right; while (y->left) y = y->left; x = y->right; }
  if (y != z) {
    z->left->parent = y; y->left = z->left;
    if (y != z->right) {
      if (x) x->parent = y->parent;
      y->parent->left = x;
      y->right = z->right; z->right->parent = y;
    }
    if (h->parent == z) h->parent = y;
    else if (z->parent->left == z) z->parent->left = y;
    else z->parent->right = y;
    y->parent = z->parent;
    y->color = z->color;
  } else {
    if (x) x->parent = y->parent;
    if (h->parent == z) h->parent = x;
    else if (z->parent->left == z) z->parent->left = x;
    else z->parent->right = x;
    if (h->left == z) h->left = z->right == 0 ? z->parent : rb_min(x);
    if (h->right == z) h->right = z->left == 0 ? z->parent : rb_max(x);
  }
  if (h->parent) h->parent->color = BLACK;
  return z;
}
#undef color
#undef parent
#undef left
#undef right
/* %"struct.std::__detail::_List_node_base" = { next*, prev* } */
struct T_struct_std____detail___List_node_base { struct T_struct_std____detail___List_node_base* f0; struct T_struct_std____detail___List_node_base* f1; };
typedef struct T_struct_std____detail___List_node_base lnb;
#define next f0
#define prev f1
void vpx__ZNSt8__detail15_List_node_base7_M_hookEPS0_(void* tv, void* pv) {
  lnb* t = tv; lnb* p = pv;
  t->next = p; t->prev = p->prev; p->prev->next = t; p->prev = t;
}
void vpx__ZNSt8__detail15_List_node_base9_M_unhookEv(void* tv) {
  lnb* t = tv; lnb* n = t->next; lnb* p = t->prev;
  p->next = n; n->prev = p;
}
void vpx__ZNSt8__detail15_List_node_base11_M_transferEPS0_S1_(void* tv, void* fv, void* lv) {
  lnb* t = tv; lnb* first = fv; lnb* last = lv;
  if (t != last) {
    last->prev->next = t; first->prev->next = last; t->prev->next = first;
    lnb* tmp = t->prev; t->prev = last->prev; last->prev = first->prev; first->prev = tmp;
  }
}
void vpx__ZNSt8__detail15_List_node_base4swapERS0_S1_(void* a, void* b) { (void)a; (void)b; VP_CHK("unmodelled:list-swap", 0); }
