/* ostream model that discards all output text (see VP_NULL_OSTREAM in sstream.c) */
#define VP_NULL_OSTREAM 1
#include "sstream.c"
