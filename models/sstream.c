/* model of the extern-template iostream members ebusd uses, on the real libstdc++ 12 object layouts (DESIGN 2.3):
 *   ostringstream: [0] vptr, [8..112) stringbuf area (holds the model's text buffer), [112..376) basic_ios
 *   istringstream: [0] vptr, [8] gcount, [16..120) stringbuf area, [120..384) basic_ios
 *   ios_base part: +8 precision, +16 width, +24 flags, +32 iostate ; basic_ios: +224 fill, +225 fill_init
 * Header-inline code (ios_base::width/flags/setf/precision, std::hex/dec/fixed...) is translated from IR and pokes
 * these fields directly; the virtual-base offset is read through a fake vtable installed by the model constructors.
 * Text is rendered for real (integers: all bases/width/fill/adjust; floating point: fixed notation with precision <= 9
 * and default %g for values that are integers or have <= 6 significant digits -- anything else is a reported model limit).
 * Validated per run: native build (real libstdc++) vs gcc build of generated C + this file must print identical outcomes. */
#include "vp_prelude.h"
void* malloc(unsigned long); void free(void*);
typedef struct { char* p; u64 len; union { char buf[16]; u64 cap; } u; } vstr;
#define SS_CAP 192
typedef struct { u64 magic; char* buf; u64 len; u64 rd; u64 hi; } srec;  /* len = put position, hi = end mark set by str(s) */
typedef struct { void* vptr; i64 precision; i64 width; u32 flags; u32 exc; u32 state; } iosb;
#define F_BOOLALPHA 0x1
#define F_DEC 0x2
#define F_FIXED 0x4
#define F_HEX 0x8
#define F_INTERNAL 0x10
#define F_LEFT 0x20
#define F_OCT 0x40
#define F_RIGHT 0x80
#define F_SCI 0x100
#define F_SHOWBASE 0x200
#define F_SHOWPOINT 0x400
#define F_SHOWPOS 0x800
#define F_SKIPWS 0x1000
#define F_UPPER 0x4000
#define ST_BAD 1
#define ST_EOF 2
#define ST_FAIL 4

/* fake vtables: only the vbase offset slot (vptr[-3]) is ever read by translated code */
static const i64 vt_os[4] = {112, 0, 0, 0};
static const i64 vt_is[4] = {120, 0, 0, 0};
static const i64 vt_if[4] = {256, 0, 0, 0};

static i64 vboff(void* s) { return ((const i64*)(*(void**)s))[-3]; }
static iosb* ios_of(void* s) { return (iosb*)((char*)s + vboff(s)); }
static char* fillp(void* s) { return (char*)ios_of(s) + 224; }
static srec* rec_of(void* s) { return (srec*)((char*)s + (vboff(s) == 112 ? 8 : 16)); }

static void ios_init(iosb* b) {
  b->vptr = 0; b->precision = 6; b->width = 0; b->flags = F_SKIPWS | F_DEC; b->exc = 0; b->state = 0;
  ((char*)b)[224] = ' '; ((char*)b)[225] = 1;
}
static void rec_init(srec* r) { r->magic = 0x5353; r->buf = malloc(SS_CAP); __CPROVER_assume(r->buf != 0); r->len = 0; r->rd = 0; r->hi = 0; }

/* VP_NULL_OSTREAM (models/sstream_null.c): output text is discarded -- for harnesses where diagnostic texts are outside
 * the claim; formatting state (width/flags) is still tracked, str() returns "" */
static void put(void* s, char c) {
#ifdef VP_NULL_OSTREAM
  (void)s; (void)c; return;
#endif
  srec* r = rec_of(s);
  if (r->len >= SS_CAP - 1) { VP_CHK("model-limit:stream-text-longer-than-SS_CAP", 0); __CPROVER_assume(0); }
  r->buf[r->len++] = c;
}
/* formatted insertion of a finished field: applies width/fill/adjust, resets width */
static void put_field(void* s, const char* t, u64 n, u64 internal_at) {
#ifdef VP_NULL_OSTREAM
  ios_of(s)->width = 0; (void)t; (void)n; (void)internal_at; return;
#endif
  iosb* b = ios_of(s);
  i64 w = b->width;
  b->width = 0;
  u64 pad = (w > 0 && (u64)w > n) ? (u64)w - n : 0;
  char f = *fillp(s);
  u32 adj = b->flags & (F_LEFT | F_RIGHT | F_INTERNAL);
  if (adj == F_LEFT) {
    for (u64 i = 0; i < n; i++) put(s, t[i]);
    for (u64 i = 0; i < pad; i++) put(s, f);
  } else if (adj == F_INTERNAL && internal_at > 0) {
    for (u64 i = 0; i < internal_at; i++) put(s, t[i]);
    for (u64 i = 0; i < pad; i++) put(s, f);
    for (u64 i = internal_at; i < n; i++) put(s, t[i]);
  } else {
    for (u64 i = 0; i < pad; i++) put(s, f);
    for (u64 i = 0; i < n; i++) put(s, t[i]);
  }
}
static u64 cstrlen(const char* c) { u64 n = 0; while (c[n]) n++; return n; }

/* ---- ostringstream ---- */
void vpx__ZNSt7__cxx1119basic_ostringstreamIcSt11char_traitsIcESaIcEEC1Ev(void* s) {
  *(const void**)s = &vt_os[3];
  ios_init(ios_of(s));
  rec_init(rec_of(s));
}
void vpx__ZNSt7__cxx1119basic_ostringstreamIcSt11char_traitsIcESaIcEED1Ev(void* s) { free(rec_of(s)->buf); }
void vpx__ZNKSt7__cxx1119basic_ostringstreamIcSt11char_traitsIcESaIcEE3strEv(void* ret, void* s) {
  srec* r = rec_of(s);
  vstr* o = ret;
  u64 n = r->len > r->hi ? r->len : r->hi;
#ifdef VP_LITERAL_OSTREAM
  /* fixed-size heap buffer: keeps the dynamic object's size concrete (reads between size() and SS_CAP go undetected) */
  if (n > 15) { o->p = malloc(SS_CAP); __CPROVER_assume(o->p != 0); o->u.cap = n; } else o->p = o->u.buf;
#else
  if (n > 15) { o->p = malloc(n + 1); __CPROVER_assume(o->p != 0); o->u.cap = n; } else o->p = o->u.buf;
#endif
  for (u64 i = 0; i < n; i++) o->p[i] = r->buf[i];
  o->p[n] = 0; o->len = n;
}
void vpx__ZNSt7__cxx1119basic_ostringstreamIcSt11char_traitsIcESaIcEE3strERKNS_12basic_stringIcS2_S3_EE(void* s, void* str) {
  srec* r = rec_of(s); vstr* q = str;
  if (q->len >= SS_CAP) { VP_CHK("model-limit:stream-text-longer-than-SS_CAP", 0); __CPROVER_assume(0); }
  for (u64 i = 0; i < q->len; i++) r->buf[i] = q->p[i];
  r->hi = q->len; r->len = 0;  /* openmode out without ate: put position at the start, old text stays up to the end mark */
}
typedef struct { u64 off; u64 state; } vfpos;
void vpx__ZNSo5tellpEv(void* ret, void* s) { vfpos* r = ret; r->off = (ios_of(s)->state & (ST_BAD | ST_FAIL)) ? ~(u64)0 : rec_of(s)->len; r->state = 0; }

void* vpx__ZStlsISt11char_traitsIcEERSt13basic_ostreamIcT_ES5_PKc(void* s, void* c) {
  if (!c) { ios_of(s)->state |= ST_BAD; return s; }
#ifdef VP_NULL_OSTREAM
  ios_of(s)->width = 0; return s;
#endif
  put_field(s, c, cstrlen(c), 0);
  return s;
}
void* vpx__ZStlsISt11char_traitsIcEERSt13basic_ostreamIcT_ES5_c(void* s, u8 ch) { char c = (char)ch; put_field(s, &c, 1, 0); return s; }
void* vpx__ZStlsISt11char_traitsIcEERSt13basic_ostreamIcT_ES5_h(void* s, u8 ch) { char c = (char)ch; put_field(s, &c, 1, 0); return s; }
void* vpx__ZStlsIcSt11char_traitsIcESaIcEERSt13basic_ostreamIT_T0_ES7_RKNSt7__cxx1112basic_stringIS4_S5_T1_EE(void* s, void* str) {
  vstr* q = str; put_field(s, q->p, q->len, 0); return s;
}
void* vpx__ZSt16__ostream_insertIcSt11char_traitsIcEERSt13basic_ostreamIT_T0_ES6_PKS3_l(void* s, void* c, u64 n) { put_field(s, c, n, 0); return s; }
void* vpx__ZNSo3putEc(void* s, u8 ch) { put(s, (char)ch); return s; }
void* vpx__ZNSo5writeEPKcl(void* s, void* c, u64 n) { for (u64 i = 0; i < n; i++) put(s, ((char*)c)[i]); return s; }
void* vpx__ZNSo5flushEv(void* s) { return s; }
void* vpx__ZSt4endlIcSt11char_traitsIcEERSt13basic_ostreamIT_T0_ES6_(void* s) { put(s, '\n'); return s; }
void* vpx__ZNSolsEPFRSt8ios_baseS0_E(void* s, void* fp) { ((void* (*)(void*))fp)(ios_of(s)); return s; }
void* vpx__ZNSolsEPFRSoS_E(void* s, void* fp) { return ((void* (*)(void*))fp)(s); }
void* vpx__ZStlsIcSt11char_traitsIcEERSt13basic_ostreamIT_T0_ES6_St5_Setw(void* s, u32 w) { ios_of(s)->width = (i64)(i32)w; return s; }
void* vpx__ZStlsIcSt11char_traitsIcEERSt13basic_ostreamIT_T0_ES6_St8_SetfillIS3_E(void* s, u8 c) { *fillp(s) = (char)c; return s; }
void* vpx__ZStlsIcSt11char_traitsIcEERSt13basic_ostreamIT_T0_ES6_St13_Setprecision(void* s, u32 p) { ios_of(s)->precision = (i64)(i32)p; return s; }
void* vpx__ZStlsIcSt11char_traitsIcEERSt13basic_ostreamIT_T0_ES6_St14_Resetiosflags(void* s, u32 m) { ios_of(s)->flags &= ~m; return s; }
void* vpx__ZStlsIcSt11char_traitsIcEERSt13basic_ostreamIT_T0_ES6_St12_Setiosflags(void* s, u32 m) { ios_of(s)->flags |= m; return s; }

static void put_int(void* s, u64 mag, int neg, int is_signed) {
#ifdef VP_NULL_OSTREAM
  ios_of(s)->width = 0; (void)mag; (void)neg; (void)is_signed; return;
#endif
#ifdef VP_LITERAL_OSTREAM
  /* models/sstream_lit.c: literal text is rendered, every number as the one placeholder digit '0' (padded to the width):
   * all text positions stay concrete; the text length is a lower bound of the real one, so every pos > size()
   * exception of the real code is also raised by the model */
  (void)mag; (void)neg; (void)is_signed; put_field(s, "0", 1, 0); return;
#endif
  iosb* b = ios_of(s);
  u32 fl = b->flags;
  u32 bf = fl & (F_DEC | F_HEX | F_OCT);
  u32 base = bf == F_HEX ? 16 : bf == F_OCT ? 8 : 10;
  char tmp[24]; u64 n = 0;
  char out[28]; u64 k = 0, internal_at = 0;
  const char* dig = (fl & F_UPPER) ? "0123456789ABCDEF" : "0123456789abcdef";
  if (mag == 0) tmp[n++] = '0';
  while (mag) { tmp[n++] = dig[mag % base]; mag /= base; }
  if (base == 10) {
    if (neg) out[k++] = '-'; else if ((fl & F_SHOWPOS) && is_signed) out[k++] = '+';
    internal_at = k;
  } else if ((fl & F_SHOWBASE) && !(n == 1 && tmp[0] == '0' && base == 16)) {
    if (base == 16) { out[k++] = '0'; out[k++] = (fl & F_UPPER) ? 'X' : 'x'; internal_at = k; }
    else if (!(n == 1 && tmp[0] == '0')) out[k++] = '0';
  }
  while (n) out[k++] = tmp[--n];
  put_field(s, out, k, internal_at);
}
static int nondec(void* s) { u32 bf = ios_of(s)->flags & (F_DEC | F_HEX | F_OCT); return bf == F_HEX || bf == F_OCT; }
void* vpx__ZNSolsEj(void* s, u32 v) { put_int(s, v, 0, 0); return s; }
void* vpx__ZNSolsEm(void* s, u64 v) { put_int(s, v, 0, 0); return s; }
void* vpx__ZNSolsEy(void* s, u64 v) { put_int(s, v, 0, 0); return s; }
void* vpx__ZNSolsEt(void* s, u16 v) { put_int(s, v, 0, 0); return s; }
void* vpx__ZNSo9_M_insertImEERSoT_(void* s, u64 v) { put_int(s, v, 0, 0); return s; }
void* vpx__ZNSolsEi(void* s, u32 v) {
  if (nondec(s)) put_int(s, v, 0, 0);
  else { i32 x = (i32)v; put_int(s, x < 0 ? (u64)(-(i64)x) : (u64)x, x < 0, 1); }
  return s;
}
void* vpx__ZNSolsEs(void* s, u16 v) {
  if (nondec(s)) put_int(s, v, 0, 0);
  else { i16 x = (i16)v; put_int(s, x < 0 ? (u64)(-(i64)x) : (u64)x, x < 0, 1); }
  return s;
}
void* vpx__ZNSolsEl(void* s, u64 v) {
  if (nondec(s)) put_int(s, v, 0, 0);
  else { i64 x = (i64)v; put_int(s, x < 0 ? (u64)0 - (u64)x : (u64)x, x < 0, 1); }
  return s;
}
void* vpx__ZNSolsEx(void* s, u64 v) { return vpx__ZNSolsEl(s, v); }
void* vpx__ZNSo9_M_insertIlEERSoT_(void* s, u64 v) { return vpx__ZNSolsEl(s, v); }
void* vpx__ZNSolsEb(void* s, u8 v) {
  if (ios_of(s)->flags & F_BOOLALPHA) put_field(s, v ? "true" : "false", v ? 4 : 5, 0); else put_int(s, v, 0, 0);
  return s;
}
void* vpx__ZNSo9_M_insertIbEERSoT_(void* s, u8 v) { return vpx__ZNSolsEb(s, v); }

/* ---- floating point (see header comment for the supported subset) ---- */
double rint(double); double floor(double); double fabs(double);
static void put_double(void* s, double v) {
#ifdef VP_NULL_OSTREAM
  ios_of(s)->width = 0; (void)v; return;
#endif
#ifdef VP_LITERAL_OSTREAM
  (void)v; put_field(s, "0", 1, 0); return;
#endif
  iosb* b = ios_of(s);
  u32 fl = b->flags;
  char out[64]; u64 k = 0;
  if (v != v) { put_field(s, (fl & F_UPPER) ? "NAN" : "nan", 3, 0); return; }   /* sign of NaN: glibc prints -nan for negative NaN */
  int neg = v < 0 || (v == 0 && 1.0 / v < 0);
  double a = neg ? -v : v;
  if (neg) out[k++] = '-'; else if (fl & F_SHOWPOS) out[k++] = '+';
  u64 internal_at = k;
  if (a > 1.7976931348623157e308) { out[k++] = 'i'; out[k++] = 'n'; out[k++] = 'f'; put_field(s, out, k, internal_at); return; }
  i64 prec = b->precision;
  if ((fl & (F_FIXED | F_SCI)) == F_FIXED) {
    if (prec < 0) prec = 6;
    if (prec > 9 || a >= 1e15) { VP_CHK("model-limit:fixed-float-format-out-of-modelled-range", 0); __CPROVER_assume(0); }
    double sc = 1.0;
    for (i64 i = 0; i < prec; i++) sc *= 10.0;
    double scaled = rint(a * sc);   /* exact for the value ranges stated in DESIGN 2.3 */
    u64 N = (u64)scaled;
    char tmp[24]; u64 n = 0;
    u64 ip = N, fp = 0, p10 = 1;
    for (i64 i = 0; i < prec; i++) p10 *= 10;
    ip = N / p10; fp = N % p10;
    if (ip == 0) tmp[n++] = '0';
    while (ip) { tmp[n++] = (char)('0' + ip % 10); ip /= 10; }
    while (n) out[k++] = tmp[--n];
    if (prec > 0 || (fl & F_SHOWPOINT)) out[k++] = '.';
    for (i64 i = prec; i > 0; i--) { u64 d = 1; for (i64 j = 1; j < i; j++) d *= 10; out[k++] = (char)('0' + (fp / d) % 10); }
    put_field(s, out, k, internal_at);
    return;
  }
  if ((fl & (F_FIXED | F_SCI)) == 0) {
    /* %g with precision P (0 -> 1): supported when the value is an integer below 10^P (printed without exponent and
       without trailing zeros) or has at most P significant digits in fixed notation within [1e-4, 10^P) */
    if (prec < 0) prec = 6;
    if (prec == 0) prec = 1;
    if (prec > 9) { VP_CHK("model-limit:%g-precision>9", 0); __CPROVER_assume(0); }
    double lim = 1.0;
    for (i64 i = 0; i < prec; i++) lim *= 10.0;
    if (a == 0) { out[k++] = '0'; put_field(s, out, k, internal_at); return; }
    if (a >= lim || a < 1e-4) { VP_CHK("model-limit:%g-exponent-form", 0); __CPROVER_assume(0); }
    /* number of integer digits e+1, then P-(e+1) fraction digits, rounded, trailing zeros stripped */
    i64 intd = 0; { double t = a; while (t >= 1.0 && intd < 16) { t /= 10.0; intd++; } }
    i64 fd = prec - (intd > 0 ? intd : 0);
    if (intd == 0) { /* leading zeros after the point do not count as significant */
      double t = a; while (t < 0.1 && fd < 12) { t *= 10.0; fd++; }
    }
    if (fd < 0) fd = 0;
    if (fd > 12) { VP_CHK("model-limit:%g-digits", 0); __CPROVER_assume(0); }
    double sc = 1.0;
    for (i64 i = 0; i < fd; i++) sc *= 10.0;
    u64 N = (u64)rint(a * sc);
    u64 p10 = 1;
    for (i64 i = 0; i < fd; i++) p10 *= 10;
    u64 ip = N / p10, fp = N % p10;
    /* rounding may carry into a new integer digit (e.g. 999999.5 with P=6 -> 1e+06): exponent form, not modelled */
    if ((double)ip >= lim) { VP_CHK("model-limit:%g-exponent-form", 0); __CPROVER_assume(0); }
    char tmp[24]; u64 n = 0;
    if (ip == 0) tmp[n++] = '0';
    while (ip) { tmp[n++] = (char)('0' + ip % 10); ip /= 10; }
    while (n) out[k++] = tmp[--n];
    i64 nd = fd;
    while (nd > 0 && fp % 10 == 0) { fp /= 10; nd--; }
    if (nd > 0) {
      out[k++] = '.';
      for (i64 i = nd; i > 0; i--) { u64 d = 1; for (i64 j = 1; j < i; j++) d *= 10; out[k++] = (char)('0' + (fp / d) % 10); }
    } else if (fl & F_SHOWPOINT) out[k++] = '.';
    put_field(s, out, k, internal_at);
    return;
  }
  VP_CHK("model-limit:scientific-float-format", 0); __CPROVER_assume(0);
}
void* vpx__ZNSolsEd(void* s, double v) { put_double(s, v); return s; }
void* vpx__ZNSolsEf(void* s, float v) { put_double(s, (double)v); return s; }
void* vpx__ZNSo9_M_insertIdEERSoT_(void* s, double v) { put_double(s, v); return s; }

/* ---- istringstream / getline ---- */
void vpx__ZNSt7__cxx1119basic_istringstreamIcSt11char_traitsIcESaIcEEC1ERKNS_12basic_stringIcS2_S3_EESt13_Ios_Openmode(void* s, void* str, u32 mode) {
  (void)mode;
  *(const void**)s = &vt_is[3];
  *(u64*)((char*)s + 8) = 0;
  ios_init(ios_of(s));
  srec* r = rec_of(s); vstr* q = str;
  r->magic = 0x4953; r->len = q->len; r->rd = 0; r->hi = 0;
  r->buf = malloc(q->len + 1); __CPROVER_assume(r->buf != 0);
  for (u64 i = 0; i < q->len; i++) r->buf[i] = q->p[i];
}
void vpx__ZNSt7__cxx1119basic_istringstreamIcSt11char_traitsIcESaIcEED1Ev(void* s) { free(rec_of(s)->buf); }
void vpx__ZNKSt7__cxx1119basic_istringstreamIcSt11char_traitsIcESaIcEE3strEv(void* ret, void* s) {
  vpx__ZNKSt7__cxx1119basic_ostringstreamIcSt11char_traitsIcESaIcEE3strEv(ret, s);
}
static void vs_set(vstr* o, const char* src, u64 n) {
  /* assign into an existing string */
  u64 cap = (o->p == o->u.buf) ? 15 : o->u.cap;
  if (n > cap) {
    u64 ncap = n < 2 * cap ? 2 * cap : n;
    char* np = malloc(ncap + 1); __CPROVER_assume(np != 0);
    if (o->p != o->u.buf) free(o->p);
    o->p = np; o->u.cap = ncap;
  }
  for (u64 i = 0; i < n; i++) o->p[i] = src[i];
  o->p[n] = 0; o->len = n;
}
static void* getline_impl(void* s, void* str, char delim) {
  iosb* b = ios_of(s); srec* r = rec_of(s);
  /* sentry (noskipws): fails if !good() */
  if (b->state != 0) { b->state |= ST_FAIL; return s; }   /* string left unchanged */
  u64 start = r->rd, i = start;
  int found = 0;
  while (i < r->len) { if (r->buf[i] == delim) { found = 1; break; } i++; }
  vs_set(str, r->buf + start, i - start);
  if (found) r->rd = i + 1;
  else { r->rd = i; b->state |= ST_EOF; if (i == start) b->state |= ST_FAIL; }
  return s;
}
void* vpx__ZSt7getlineIcSt11char_traitsIcESaIcEERSt13basic_istreamIT_T0_ES7_RNSt7__cxx1112basic_stringIS4_S5_T1_EES4_(void* s, void* str, u8 delim) { return getline_impl(s, str, (char)delim); }
void* vpx__ZSt7getlineIcSt11char_traitsIcESaIcEERSt13basic_istreamIT_T0_ES7_RNSt7__cxx1112basic_stringIS4_S5_T1_EE(void* s, void* str) { return getline_impl(s, str, '\n'); }
u32 vpx__ZNSi4peekEv(void* s) {
  iosb* b = ios_of(s); srec* r = rec_of(s);
  *(u64*)((char*)s + 8) = 0;
  if (b->state != 0) { b->state |= ST_FAIL; return (u32)-1; }
  if (r->rd >= r->len) { b->state |= ST_EOF; return (u32)-1; }
  return (u8)r->buf[r->rd];
}
u32 vpx__ZNSi3getEv(void* s) {
  iosb* b = ios_of(s); srec* r = rec_of(s);
  *(u64*)((char*)s + 8) = 0;
  if (b->state != 0) { b->state |= ST_FAIL; return (u32)-1; }
  if (r->rd >= r->len) { b->state |= ST_EOF | ST_FAIL; return (u32)-1; }
  *(u64*)((char*)s + 8) = 1;
  return (u8)r->buf[r->rd++];
}
u8 vpx__ZNKSt9basic_iosIcSt11char_traitsIcEE3eofEv(void* b) { return (((iosb*)b)->state & ST_EOF) != 0; }
u8 vpx__ZNKSt9basic_iosIcSt11char_traitsIcEE4failEv(void* b) { return (((iosb*)b)->state & (ST_FAIL | ST_BAD)) != 0; }
u8 vpx__ZNKSt9basic_iosIcSt11char_traitsIcEE4goodEv(void* b) { return ((iosb*)b)->state == 0; }
u8 vpx__ZNKSt9basic_iosIcSt11char_traitsIcEEcvbEv(void* b) { return (((iosb*)b)->state & (ST_FAIL | ST_BAD)) == 0; }
u8 vpx__ZNKSt9basic_iosIcSt11char_traitsIcEEntEv(void* b) { return (((iosb*)b)->state & (ST_FAIL | ST_BAD)) != 0; }
void vpx__ZNSt9basic_iosIcSt11char_traitsIcEE5clearESt12_Ios_Iostate(void* b, u32 st) { ((iosb*)b)->state = st; }
u8 vpx__ZNSt9basic_iosIcSt11char_traitsIcEE4fillEc(void* b, u8 c) { char* f = (char*)b + 224; u8 o = (u8)*f; *f = (char)c; return o; }
u8 vpx__ZNKSt9basic_iosIcSt11char_traitsIcEE4fillEv(void* b) { return (u8)*((char*)b + 224); }

/* ---- ifstream: no file system in the model, every open fails ---- */
void vpx__ZNSt14basic_ifstreamIcSt11char_traitsIcEEC1Ev(void* s) { *(const void**)s = &vt_if[3]; *(u64*)((char*)s + 8) = 0; ios_init(ios_of(s)); }
void vpx__ZNSt14basic_ifstreamIcSt11char_traitsIcEED1Ev(void* s) { (void)s; }
void vpx__ZNSt14basic_ifstreamIcSt11char_traitsIcEE4openEPKcSt13_Ios_Openmode(void* s, void* n, u32 m) { (void)n; (void)m; ios_of(s)->state |= ST_FAIL; }
u8 vpx__ZNSt14basic_ifstreamIcSt11char_traitsIcEE7is_openEv(void* s) { (void)s; return 0; }
void vpx__ZNSt14basic_ifstreamIcSt11char_traitsIcEE5closeEv(void* s) { ios_of(s)->state |= ST_FAIL; }
