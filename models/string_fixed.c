/* std::string model with fixed-size heap buffers (see VP_FIXED_ALLOC in string.c) */
#define VP_FIXED_ALLOC 256
#include "string.c"
