/* model of the out-of-line members of std::__cxx11::basic_string<char> on the real libstdc++ object layout
 * { char* p; size_t len; union { char buf[16]; size_t cap; } }  (DESIGN 2.3). Semantics follow libstdc++ 12
 * (SSO capacity 15, growth max(need, 2*cap), pos > size() -> std::out_of_range = uncaught-exception model).
 * Validated on every run by comparing the native build (real libstdc++) with the gcc build of generated C + this file. */
#include "vp_prelude.h"
void* malloc(unsigned long); void free(void*);
typedef struct { char* p; u64 len; union { char buf[16]; u64 cap; } u; } vstr;
#define NPOS (~(u64)0)
#define M(x) vpx__ZNSt7__cxx1112basic_stringIcSt11char_traitsIcESaIcEE##x
#define K(x) vpx__ZNKSt7__cxx1112basic_stringIcSt11char_traitsIcESaIcEE##x

static void vs_throw(void) { VP_CHK("uncaught-exception", 0); __CPROVER_assume(0); }
static int vs_local(const vstr* s) { return s->p == s->u.buf; }
static u64 vs_cap(const vstr* s) { return vs_local(s) ? 15 : s->u.cap; }
static u64 vs_strlen(const char* c) { u64 n = 0; while (c[n]) n++; return n; }
static void vs_init(vstr* s) { s->p = s->u.buf; s->len = 0; s->u.buf[0] = 0; }
static void vs_dispose(vstr* s) { if (!vs_local(s)) free(s->p); }
#ifdef VP_FIXED_ALLOC
/* models/string_fixed.c: heap buffers get a fixed size so that dynamic objects stay concrete-sized; a request beyond it
 * is a reported model limit; reads between size() and the fixed size go undetected (stated per job) */
static char* vs_alloc(u64 cap) {
  if (cap + 1 > VP_FIXED_ALLOC) { VP_CHK("model-limit:string-longer-than-VP_FIXED_ALLOC", 0); __CPROVER_assume(0); }
  char* p = malloc(VP_FIXED_ALLOC); __CPROVER_assume(p != 0); return p;
}
#else
static char* vs_alloc(u64 cap) { char* p = malloc(cap + 1); __CPROVER_assume(p != 0); return p; }
#endif
static void vs_copy(char* d, const char* s, u64 n) { for (u64 i = 0; i < n; i++) d[i] = s[i]; }
static void vs_move_fwd(char* d, const char* s, u64 n) { for (u64 i = 0; i < n; i++) d[i] = s[i]; }   /* d < s */
static void vs_move_bwd(char* d, const char* s, u64 n) { for (u64 i = n; i > 0; i--) d[i - 1] = s[i - 1]; } /* d > s */

/* make room for total length 'need', keeping the first 'keep' chars */
static void vs_grow(vstr* s, u64 need, u64 keep) {
  u64 cap = vs_cap(s);
  if (need <= cap) return;
  u64 ncap = need < 2 * cap ? 2 * cap : need;
  char* np = vs_alloc(ncap);
  vs_copy(np, s->p, keep);
  vs_dispose(s);
  s->p = np; s->u.cap = ncap;
}
static void vs_setlen(vstr* s, u64 n) { s->len = n; s->p[n] = 0; }

/* replace [pos, pos+n1) by src[0..n2); src must not alias s unless it is handled by the caller */
static void vs_replace(vstr* s, u64 pos, u64 n1, const char* src, u64 n2) {
  u64 len = s->len;
  if (pos > len) { vs_throw(); return; }
  if (n1 > len - pos) n1 = len - pos;
  u64 nlen = len - n1 + n2;
  u64 tail = len - pos - n1;
  if (nlen <= vs_cap(s)) {
    char* p = s->p;
    if (n2 < n1) vs_move_fwd(p + pos + n2, p + pos + n1, tail);
    else if (n2 > n1) vs_move_bwd(p + pos + n2, p + pos + n1, tail);
    vs_copy(p + pos, src, n2);
  } else {
    u64 cap = vs_cap(s);
    u64 ncap = nlen < 2 * cap ? 2 * cap : nlen;
    char* np = vs_alloc(ncap);
    vs_copy(np, s->p, pos);
    vs_copy(np + pos, src, n2);
    vs_copy(np + pos + n2, s->p + pos + n1, tail);
    vs_dispose(s);
    s->p = np; s->u.cap = ncap;
  }
  vs_setlen(s, nlen);
}
static void vs_assign(vstr* s, const char* src, u64 n) {
  if (n > vs_cap(s)) {
    /* libstdc++ _M_assign/_M_replace allocate max(n, 2*cap) */
    u64 cap = vs_cap(s);
    u64 ncap = n < 2 * cap ? 2 * cap : n;
    char* np = vs_alloc(ncap);
    vs_copy(np, src, n);
    vs_dispose(s);
    s->p = np; s->u.cap = ncap;
  } else {
    if (s->p != src) vs_copy(s->p, src, n);
  }
  vs_setlen(s, n);
}
static void vs_construct(vstr* s, const char* src, u64 n) {
  if (n > 15) { s->p = vs_alloc(n); s->u.cap = n; } else s->p = s->u.buf;
  vs_copy(s->p, src, n);
  vs_setlen(s, n);
}

/* ---- constructors / destructor ---- */
void M(C2Ev)(void* t) { vs_init(t); }
void M(C1Ev)(void* t) { vs_init(t); }
void M(C2ERKS3_)(void* t, void* a) { (void)a; vs_init(t); }
void M(C1ERKS3_)(void* t, void* a) { (void)a; vs_init(t); }
void M(C2ERKS4_)(void* t, void* o) { vstr* q = o; vs_construct(t, q->p, q->len); }
void M(C1ERKS4_)(void* t, void* o) { vstr* q = o; vs_construct(t, q->p, q->len); }
static void vs_move_ctor(vstr* s, vstr* o) {
  if (vs_local(o)) { s->p = s->u.buf; vs_copy(s->u.buf, o->u.buf, o->len + 1); }
  else { s->p = o->p; s->u.cap = o->u.cap; }
  s->len = o->len;
  vs_init(o);
}
void M(C2EOS4_)(void* t, void* o) { vs_move_ctor(t, o); }
void M(C1EOS4_)(void* t, void* o) { vs_move_ctor(t, o); }
void M(D2Ev)(void* t) { vs_dispose(t); }
void M(D1Ev)(void* t) { vs_dispose(t); }
/* basic_string(const char*, const allocator&) and (const string&, pos, n) when emitted out of line */
void M(C2EPKcRKS3_)(void* t, void* c, void* a) { (void)a; if (!c) { vs_throw(); return; } vs_construct(t, c, vs_strlen(c)); }
void M(C1EPKcRKS3_)(void* t, void* c, void* a) { (void)a; if (!c) { vs_throw(); return; } vs_construct(t, c, vs_strlen(c)); }
void M(C2EPKcmRKS3_)(void* t, void* c, u64 n, void* a) { (void)a; vs_construct(t, c, n); }
void M(C1EPKcmRKS3_)(void* t, void* c, u64 n, void* a) { (void)a; vs_construct(t, c, n); }
void M(C2EmcRKS3_)(void* t, u64 n, u8 ch, void* a) { (void)a; vstr* s = t; if (n > 15) { s->p = vs_alloc(n); s->u.cap = n; } else s->p = s->u.buf; for (u64 i = 0; i < n; i++) s->p[i] = (char)ch; vs_setlen(s, n); }
void M(C1EmcRKS3_)(void* t, u64 n, u8 ch, void* a) { M(C2EmcRKS3_)(t, n, ch, a); }
void M(C2ERKS4_mm)(void* t, void* o, u64 pos, u64 n) { vstr* q = o; if (pos > q->len) { vs_throw(); return; } if (n > q->len - pos) n = q->len - pos; vs_construct(t, q->p + pos, n); }
void M(C1ERKS4_mm)(void* t, void* o, u64 pos, u64 n) { M(C2ERKS4_mm)(t, o, pos, n); }

/* ---- internals used by header-inline template code (_M_construct etc.) ---- */
void* M(9_M_createERmm)(void* t, void* capp, u64 old) {
  (void)t;
  u64* cap = capp;
  if (*cap > 0x3fffffffffffffffULL) { vs_throw(); return 0; }
  if (*cap > old && *cap < 2 * old) *cap = 2 * old;
  return vs_alloc(*cap);
}
void M(7_M_dataEPc)(void* t, void* p) { ((vstr*)t)->p = p; }
void* K(7_M_dataEv)(void* t) { return ((vstr*)t)->p; }
void* M(13_M_local_dataEv)(void* t) { return ((vstr*)t)->u.buf; }
void* K(13_M_local_dataEv)(void* t) { return ((vstr*)t)->u.buf; }
void M(11_M_capacityEm)(void* t, u64 c) { ((vstr*)t)->u.cap = c; }
void M(13_M_set_lengthEm)(void* t, u64 n) { vs_setlen(t, n); }
void M(10_M_disposeEv)(void* t) { vs_dispose(t); }
void M(13_S_copy_charsEPcPKcS7_)(void* d, void* b, void* e) { vs_copy(d, b, (u64)((char*)e - (char*)b)); }
void M(13_S_copy_charsEPcS5_S5_)(void* d, void* b, void* e) { vs_copy(d, b, (u64)((char*)e - (char*)b)); }
void M(12_Alloc_hiderC2EPcRKS3_)(void* t, void* p, void* a) { (void)a; *(char**)t = p; }
void M(12_Alloc_hiderC1EPcRKS3_)(void* t, void* p, void* a) { (void)a; *(char**)t = p; }
void M(12_Alloc_hiderC2EPcOS3_)(void* t, void* p, void* a) { (void)a; *(char**)t = p; }
void M(12_Alloc_hiderC1EPcOS3_)(void* t, void* p, void* a) { (void)a; *(char**)t = p; }
void vpx__ZNSaIcEC2Ev(void* t) { (void)t; }
void vpx__ZNSaIcEC1Ev(void* t) { (void)t; }
void vpx__ZNSaIcEC2ERKS_(void* t, void* o) { (void)t; (void)o; }
void vpx__ZNSaIcEC1ERKS_(void* t, void* o) { (void)t; (void)o; }
void vpx__ZNSaIcED2Ev(void* t) { (void)t; }
void vpx__ZNSaIcED1Ev(void* t) { (void)t; }
void K(13get_allocatorEv)(void* ret, void* t) { (void)ret; (void)t; }
void M(9_M_assignERKS4_)(void* t, void* o) { vstr* q = o; if (t != o) vs_assign(t, q->p, q->len); }
void* M(10_M_replaceEmmPKcm)(void* t, u64 pos, u64 n1, void* c, u64 n2) { vs_replace(t, pos, n1, c, n2); return t; }
void* M(9_M_appendEPKcm)(void* t, void* c, u64 n) { vstr* s = t; vs_replace(s, s->len, 0, c, n); return t; }
void* M(14_M_replace_auxEmmmc)(void* t, u64 pos, u64 n1, u64 n2, u8 ch) {
  vstr* s = t;
  char tmp[64];
  if (n2 > 64) { VP_CHK("model-limit:replace_aux>64", 0); __CPROVER_assume(0); }
  for (u64 i = 0; i < n2; i++) tmp[i] = (char)ch;
  vs_replace(s, pos, n1, tmp, n2);
  return t;
}
void M(9_M_mutateEmmPKcm)(void* t, u64 pos, u64 n1, void* c, u64 n2) { vs_replace(t, pos, n1, c, n2); }
void M(8_M_eraseEmm)(void* t, u64 pos, u64 n) { vs_replace(t, pos, n, "", 0); }

/* ---- observers ---- */
u64 K(4sizeEv)(void* t) { return ((vstr*)t)->len; }
u64 K(6lengthEv)(void* t) { return ((vstr*)t)->len; }
u64 K(8capacityEv)(void* t) { return vs_cap(t); }
u8 K(5emptyEv)(void* t) { return ((vstr*)t)->len == 0; }
void* K(5c_strEv)(void* t) { return ((vstr*)t)->p; }
void* K(4dataEv)(void* t) { return ((vstr*)t)->p; }
void* M(4dataEv)(void* t) { return ((vstr*)t)->p; }
void* K(5beginEv)(void* t) { return ((vstr*)t)->p; }
void* M(5beginEv)(void* t) { return ((vstr*)t)->p; }
void* K(3endEv)(void* t) { vstr* s = t; return s->p + s->len; }
void* M(3endEv)(void* t) { vstr* s = t; return s->p + s->len; }
void* K(ixEm)(void* t, u64 i) { return ((vstr*)t)->p + i; }
void* M(ixEm)(void* t, u64 i) { return ((vstr*)t)->p + i; }
void* M(2atEm)(void* t, u64 i) { vstr* s = t; if (i >= s->len) { vs_throw(); return 0; } return s->p + i; }
void* K(2atEm)(void* t, u64 i) { vstr* s = t; if (i >= s->len) { vs_throw(); return 0; } return s->p + i; }
void* M(4backEv)(void* t) { vstr* s = t; return s->p + s->len - 1; }
void* K(4backEv)(void* t) { vstr* s = t; return s->p + s->len - 1; }
void* M(5frontEv)(void* t) { return ((vstr*)t)->p; }

/* ---- modifiers ---- */
void M(5clearEv)(void* t) { vs_setlen(t, 0); }
void M(7reserveEm)(void* t, u64 n) {
  vstr* s = t;
  u64 cap = vs_cap(s);
  if (n <= cap) return;
  u64 ncap = n < 2 * cap ? 2 * cap : n;
  char* np = vs_alloc(ncap);
  vs_copy(np, s->p, s->len + 1);
  vs_dispose(s);
  s->p = np; s->u.cap = ncap;
}
void M(6resizeEmc)(void* t, u64 n, u8 ch) {
  vstr* s = t;
  if (n <= s->len) { vs_setlen(s, n); return; }
  M(14_M_replace_auxEmmmc)(t, s->len, 0, n - s->len, ch);
}
void M(6resizeEm)(void* t, u64 n) { M(6resizeEmc)(t, n, 0); }
void M(9push_backEc)(void* t, u8 ch) { char c = (char)ch; vstr* s = t; vs_replace(s, s->len, 0, &c, 1); }
void M(8pop_backEv)(void* t) { vstr* s = t; vs_setlen(s, s->len - 1); }
void* M(6appendEPKc)(void* t, void* c) { vstr* s = t; vs_replace(s, s->len, 0, c, vs_strlen(c)); return t; }
void* M(6appendEPKcm)(void* t, void* c, u64 n) { vstr* s = t; vs_replace(s, s->len, 0, c, n); return t; }
void* M(6appendERKS4_)(void* t, void* o) {
  vstr* s = t; vstr* q = o;
  if (s == q) { /* self append: copy first */
    u64 n = s->len; char* tmp = vs_alloc(n); vs_copy(tmp, s->p, n); vs_replace(s, n, 0, tmp, n); free(tmp);
  } else vs_replace(s, s->len, 0, q->p, q->len);
  return t;
}
void* M(6appendERKS4_mm)(void* t, void* o, u64 pos, u64 n) {
  vstr* s = t; vstr* q = o;
  if (pos > q->len) { vs_throw(); return t; }
  if (n > q->len - pos) n = q->len - pos;
  vs_replace(s, s->len, 0, q->p + pos, n);
  return t;
}
void* M(6appendEmc)(void* t, u64 n, u8 ch) { vstr* s = t; return M(14_M_replace_auxEmmmc)(t, s->len, 0, n, ch); }
void* M(pLEPKc)(void* t, void* c) { return M(6appendEPKc)(t, c); }
void* M(pLERKS4_)(void* t, void* o) { return M(6appendERKS4_)(t, o); }
void* M(pLEc)(void* t, u8 ch) { M(9push_backEc)(t, ch); return t; }
void* M(aSEPKc)(void* t, void* c) { vs_assign(t, c, vs_strlen(c)); return t; }
void* M(aSERKS4_)(void* t, void* o) { M(9_M_assignERKS4_)(t, o); return t; }
void* M(aSEc)(void* t, u8 ch) { char c = (char)ch; vs_assign(t, &c, 1); return t; }
void* M(6assignEPKc)(void* t, void* c) { vs_assign(t, c, vs_strlen(c)); return t; }
void* M(6assignEPKcm)(void* t, void* c, u64 n) { vs_assign(t, c, n); return t; }
void* M(6assignERKS4_)(void* t, void* o) { M(9_M_assignERKS4_)(t, o); return t; }
void* M(aSEOS4_)(void* t, void* o) {
  vstr* s = t; vstr* q = o;
  if (s == q) return t;
  if (vs_local(q)) { vs_assign(s, q->p, q->len); }
  else {
    vs_dispose(s);
    s->p = q->p; s->len = q->len; s->u.cap = q->u.cap;
    q->p = q->u.buf;
  }
  vs_setlen(q, 0);
  return t;
}
void* M(5eraseEmm)(void* t, u64 pos, u64 n) {
  vstr* s = t;
  if (pos > s->len) { vs_throw(); return t; }
  vs_replace(s, pos, n, "", 0);
  return t;
}
void* M(5eraseEN9__gnu_cxx17__normal_iteratorIPKcS4_EES9_)(void* t, void* b, void* e) {
  vstr* s = t;
  u64 pos = (u64)((char*)b - s->p), n = (u64)((char*)e - (char*)b);
  vs_replace(s, pos, n, "", 0);
  return s->p + pos;
}
void* M(5eraseEN9__gnu_cxx17__normal_iteratorIPKcS4_EE)(void* t, void* b) {
  vstr* s = t;
  u64 pos = (u64)((char*)b - s->p);
  vs_replace(s, pos, 1, "", 0);
  return s->p + pos;
}
void* M(6insertEmPKc)(void* t, u64 pos, void* c) { vs_replace(t, pos, 0, c, vs_strlen(c)); return t; }
void* M(6insertEmRKS4_)(void* t, u64 pos, void* o) { vstr* q = o; vs_replace(t, pos, 0, q->p, q->len); return t; }
void* M(6insertEmmc)(void* t, u64 pos, u64 n, u8 ch) { return M(14_M_replace_auxEmmmc)(t, pos, 0, n, ch); }
void* M(7replaceEmmPKc)(void* t, u64 pos, u64 n, void* c) { vs_replace(t, pos, n, c, vs_strlen(c)); return t; }
void* M(7replaceEmmRKS4_)(void* t, u64 pos, u64 n, void* o) { vstr* q = o; vs_replace(t, pos, n, q->p, q->len); return t; }
void* M(7replaceEmmPKcm)(void* t, u64 pos, u64 n, void* c, u64 n2) { vs_replace(t, pos, n, c, n2); return t; }
void M(4swapERS4_)(void* t, void* o) {
  vstr* a = t; vstr* b = o; vstr ta, tb;
  vs_construct(&ta, a->p, a->len); vs_construct(&tb, b->p, b->len);
  vs_assign(a, tb.p, tb.len); vs_assign(b, ta.p, ta.len);
  vs_dispose(&ta); vs_dispose(&tb);
}
void K(6substrEmm)(void* ret, void* t, u64 pos, u64 n) {
  vstr* s = t;
  if (pos > s->len) { vs_throw(); return; }
  if (n > s->len - pos) n = s->len - pos;
  vs_construct(ret, s->p + pos, n);
}

/* ---- compare / find ---- */
static i32 vs_compare(const char* a, u64 la, const char* b, u64 lb) {
  u64 n = la < lb ? la : lb;
  for (u64 i = 0; i < n; i++) {
    u8 x = (u8)a[i], y = (u8)b[i];
    if (x != y) return x < y ? -1 : 1;
  }
  i64 d = (i64)la - (i64)lb;
  if (d > 2147483647LL) return 2147483647;
  if (d < -2147483647LL - 1) return -2147483647 - 1;
  return (i32)d;
}
u32 K(7compareEPKc)(void* t, void* c) { vstr* s = t; return (u32)vs_compare(s->p, s->len, c, vs_strlen(c)); }
u32 K(7compareERKS4_)(void* t, void* o) { vstr* s = t; vstr* q = o; return (u32)vs_compare(s->p, s->len, q->p, q->len); }
u32 K(7compareEmmPKc)(void* t, u64 pos, u64 n, void* c) {
  vstr* s = t;
  if (pos > s->len) { vs_throw(); return 0; }
  if (n > s->len - pos) n = s->len - pos;
  return (u32)vs_compare(s->p + pos, n, c, vs_strlen(c));
}
u32 K(7compareEmmRKS4_)(void* t, u64 pos, u64 n, void* o) {
  vstr* s = t; vstr* q = o;
  if (pos > s->len) { vs_throw(); return 0; }
  if (n > s->len - pos) n = s->len - pos;
  return (u32)vs_compare(s->p + pos, n, q->p, q->len);
}
static u64 vs_find(const vstr* s, const char* c, u64 pos, u64 n) {
  u64 len = s->len;
  if (n == 0) return pos <= len ? pos : NPOS;
  if (pos >= len || n > len - pos) return NPOS;
  for (u64 i = pos; i + n <= len; i++) {
    u64 k = 0;
    while (k < n && s->p[i + k] == c[k]) k++;
    if (k == n) return i;
  }
  return NPOS;
}
static u64 vs_rfind(const vstr* s, const char* c, u64 pos, u64 n) {
  u64 len = s->len;
  if (n > len) return NPOS;
  u64 i = len - n;
  if (pos < i) i = pos;
  for (;;) {
    u64 k = 0;
    while (k < n && s->p[i + k] == c[k]) k++;
    if (k == n) return i;
    if (i == 0) break;
    i--;
  }
  return NPOS;
}
static int vs_in(char ch, const char* set, u64 n) { for (u64 i = 0; i < n; i++) if (set[i] == ch) return 1; return 0; }
u64 K(4findEcm)(void* t, u8 ch, u64 pos) { vstr* s = t; for (u64 i = pos; i < s->len; i++) if (s->p[i] == (char)ch) return i; return NPOS; }
u64 K(4findEPKcm)(void* t, void* c, u64 pos) { return vs_find(t, c, pos, vs_strlen(c)); }
u64 K(4findEPKcmm)(void* t, void* c, u64 pos, u64 n) { return vs_find(t, c, pos, n); }
u64 K(4findERKS4_m)(void* t, void* o, u64 pos) { vstr* q = o; return vs_find(t, q->p, pos, q->len); }
u64 K(5rfindEcm)(void* t, u8 ch, u64 pos) {
  vstr* s = t;
  if (s->len == 0) return NPOS;
  u64 i = s->len - 1; if (pos < i) i = pos;
  for (;; i--) { if (s->p[i] == (char)ch) return i; if (i == 0) break; }
  return NPOS;
}
u64 K(5rfindEPKcm)(void* t, void* c, u64 pos) { return vs_rfind(t, c, pos, vs_strlen(c)); }
u64 K(5rfindERKS4_m)(void* t, void* o, u64 pos) { vstr* q = o; return vs_rfind(t, q->p, pos, q->len); }
u64 K(13find_first_ofEPKcm)(void* t, void* c, u64 pos) { vstr* s = t; u64 n = vs_strlen(c); for (u64 i = pos; n && i < s->len; i++) if (vs_in(s->p[i], c, n)) return i; return NPOS; }
u64 K(13find_first_ofEcm)(void* t, u8 ch, u64 pos) { return K(4findEcm)(t, ch, pos); }
u64 K(12find_last_ofEcm)(void* t, u8 ch, u64 pos) { return K(5rfindEcm)(t, ch, pos); }
u64 K(12find_last_ofEPKcm)(void* t, void* c, u64 pos) {
  vstr* s = t; u64 n = vs_strlen(c);
  if (s->len == 0 || n == 0) return NPOS;
  u64 i = s->len - 1; if (pos < i) i = pos;
  for (;; i--) { if (vs_in(s->p[i], c, n)) return i; if (i == 0) break; }
  return NPOS;
}
u64 K(17find_first_not_ofEPKcm)(void* t, void* c, u64 pos) { vstr* s = t; u64 n = vs_strlen(c); for (u64 i = pos; i < s->len; i++) if (!vs_in(s->p[i], c, n)) return i; return NPOS; }
u64 K(17find_first_not_ofEcm)(void* t, u8 ch, u64 pos) { vstr* s = t; for (u64 i = pos; i < s->len; i++) if (s->p[i] != (char)ch) return i; return NPOS; }
u64 K(16find_last_not_ofEPKcm)(void* t, void* c, u64 pos) {
  vstr* s = t; u64 n = vs_strlen(c);
  if (s->len == 0) return NPOS;
  u64 i = s->len - 1; if (pos < i) i = pos;
  for (;; i--) { if (!vs_in(s->p[i], c, n)) return i; if (i == 0) break; }
  return NPOS;
}
u64 K(16find_last_not_ofEcm)(void* t, u8 ch, u64 pos) {
  vstr* s = t;
  if (s->len == 0) return NPOS;
  u64 i = s->len - 1; if (pos < i) i = pos;
  for (;; i--) { if (s->p[i] != (char)ch) return i; if (i == 0) break; }
  return NPOS;
}
void M(12_M_constructEmc)(void* t, u64 n, u8 ch) {
  vstr* s = t;
  if (n > 15) { s->p = vs_alloc(n); s->u.cap = n; } else s->p = s->u.buf;
  for (u64 i = 0; i < n; i++) s->p[i] = (char)ch;
  vs_setlen(s, n);
}
