/* ostream model that renders literal text and strings for real but every number as the single placeholder digit '0'
 * (see VP_LITERAL_OSTREAM in sstream.c): text positions stay concrete, text length is a lower bound of the real length */
#define VP_LITERAL_OSTREAM 1
#include "sstream.c"
