/* operator new/delete, atexit, throw helpers. DESIGN 2.3: new = malloc assumed non-NULL; every __throw_* is an
 * uncaught exception (ebusd has no handlers) */
#include "vp_prelude.h"
void* malloc(unsigned long); void free(void*);
u8 vpx___dso_handle;
void* vpx__Znwm(u64 n) { void* p = malloc(n ? n : 1); __CPROVER_assume(p != 0); return p; }
void* vpx__Znam(u64 n) { void* p = malloc(n ? n : 1); __CPROVER_assume(p != 0); return p; }
void vpx__ZdlPv(void* p) { free(p); }
void vpx__ZdaPv(void* p) { free(p); }
void vpx__ZdlPvm(void* p, u64 n) { (void)n; free(p); }
u32 vpx___cxa_atexit(void* f, void* o, void* d) { (void)f; (void)o; (void)d; return 0; }
void vpx___cxa_pure_virtual(void) { VP_CHK("pure-virtual-call", 0); __CPROVER_assume(0); }
void vpx__ZNSt8ios_base4InitC1Ev(void* p) { (void)p; }
void vpx__ZNSt8ios_base4InitD1Ev(void* p) { (void)p; }
#define THROW(name) void name(void* m) { (void)m; VP_CHK("uncaught-exception", 0); __CPROVER_assume(0); }
#define THROW0(name) void name(void) { VP_CHK("uncaught-exception", 0); __CPROVER_assume(0); }
THROW(vpx__ZSt20__throw_length_errorPKc)
THROW(vpx__ZSt19__throw_logic_errorPKc)
THROW(vpx__ZSt20__throw_out_of_rangePKc)
THROW(vpx__ZSt24__throw_invalid_argumentPKc)
THROW0(vpx__ZSt17__throw_bad_allocv)
THROW0(vpx__ZSt16__throw_bad_castv)
THROW0(vpx__ZSt25__throw_bad_function_callv)
THROW0(vpx__ZSt28__throw_bad_array_new_lengthv)
void vpx__ZSt24__throw_out_of_range_fmtPKcz(void* fmt, ...) { (void)fmt; VP_CHK("uncaught-exception", 0); __CPROVER_assume(0); }
/* function-local statics: single-threaded guard */
u32 vpx___cxa_guard_acquire(void* g) { return *(u8*)g == 0; }
void vpx___cxa_guard_release(void* g) { *(u8*)g = 1; }
void vpx___cxa_guard_abort(void* g) { (void)g; }
