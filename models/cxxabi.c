/* operator new/delete, atexit, throw helpers. DESIGN 2.3: new = malloc assumed non-NULL; every __throw_* is an
 * uncaught exception (ebusd has no handlers) */
#include "vp_prelude.h"
void* malloc(unsigned long); void free(void*);
u8 vpx___dso_handle;
#ifdef VP_NEW_FIXED
/* job option -DVP_NEW_FIXED=<bytes>: untyped operator new hands out blocks of one fixed size so that heap objects keep a
 * concrete size when the requested size is a symbolic expression (e.g. the size of the element a symbolic iterator points
 * to); larger requests are a reported model limit; accesses between the requested and the fixed size go undetected */
void* vpx__Znwm(u64 n) {
  if (n > VP_NEW_FIXED) { VP_CHK("model-limit:operator-new-larger-than-VP_NEW_FIXED", 0); __CPROVER_assume(0); }
  void* p = malloc(VP_NEW_FIXED); __CPROVER_assume(p != 0); return p;
}
#else
void* vpx__Znwm(u64 n) { void* p = malloc(n ? n : 1); __CPROVER_assume(p != 0); return p; }
#endif
void* vpx__Znam(u64 n) { void* p = malloc(n ? n : 1); __CPROVER_assume(p != 0); return p; }
void vpx__ZdlPv(void* p) { free(p); }
void vpx__ZdaPv(void* p) { free(p); }
void vpx__ZdlPvm(void* p, u64 n) { (void)n; free(p); }
u32 vpx___cxa_atexit(void* f, void* o, void* d) { (void)f; (void)o; (void)d; return 0; }
void vpx___cxa_pure_virtual(void) { VP_CHK("pure-virtual-call", 0); __CPROVER_assume(0); }
void vpx__ZNSt8ios_base4InitC1Ev(void* p) { (void)p; }
void vpx__ZNSt8ios_base4InitD1Ev(void* p) { (void)p; }
#define THROW(name) void name(void* m) { (void)m; VP_CHK("uncaught-exception", 0); __CPROVER_assume(0); }
#define THROW0(name) void name(void) { VP_CHK("uncaught-exception", 0); __CPROVER_assume(0); }
THROW(vpx__ZSt20__throw_length_errorPKc)
THROW(vpx__ZSt19__throw_logic_errorPKc)
THROW(vpx__ZSt20__throw_out_of_rangePKc)
THROW(vpx__ZSt24__throw_invalid_argumentPKc)
THROW0(vpx__ZSt17__throw_bad_allocv)
THROW0(vpx__ZSt16__throw_bad_castv)
THROW0(vpx__ZSt25__throw_bad_function_callv)
THROW0(vpx__ZSt28__throw_bad_array_new_lengthv)
void vpx__ZSt24__throw_out_of_range_fmtPKcz(void* fmt, ...) { (void)fmt; VP_CHK("uncaught-exception", 0); __CPROVER_assume(0); }
/* function-local statics: single-threaded guard */
u32 vpx___cxa_guard_acquire(void* g) { return *(u8*)g == 0; }
void vpx___cxa_guard_release(void* g) { *(u8*)g = 1; }
void vpx___cxa_guard_abort(void* g) { (void)g; }
/* RTTI support objects referenced by typeinfo initialisers (only their addresses matter) and __dynamic_cast for
 * single-inheritance hierarchies (all ebusd class trees that use dynamic_cast are single inheritance):
 * typeinfo layout { vptr, name, base (for __si_class_type_info) }, vtable layout [-2] offset-to-top, [-1] typeinfo */
u8* vpx__ZTVN10__cxxabiv117__class_type_infoE; u8* vpx__ZTVN10__cxxabiv120__si_class_type_infoE; u8* vpx__ZTVN10__cxxabiv121__vmi_class_type_infoE;
void* vpx___dynamic_cast(void* sub, void* src_ti, void* dst_ti, u64 hint) {
  (void)src_ti; (void)hint;
  if (!sub) return 0;
  void** vptr = *(void***)sub;
  i64 off_to_top = (i64)vptr[-2];
  void** ti = (void**)vptr[-1];
  char* complete = (char*)sub + off_to_top;
  for (int k = 0; k < 8; k++) {
    if ((void*)ti == dst_ti) return complete;
    if (ti[0] != (void*)(&vpx__ZTVN10__cxxabiv120__si_class_type_infoE + 2)) return 0;
    ti = (void**)ti[2];
  }
  return 0;
}
